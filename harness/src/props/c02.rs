//! C02 - DTLS connects only to the peer whose certificate matches the SDP fingerprint.
//!
//! Two real rustrtc endpoints are joined by the harness network (`net::rig::Pair`, no SCTP). Side A
//! is the *victim*: it is configured with an expected fingerprint F. Side B is the peer or the
//! impostor: a second rustrtc endpoint whose `dtls::Certificate` the harness assembles, so an
//! attacker's own transcript always matches what the victim sees (a missing check on the victim is
//! not masked by a later Finished mismatch). On top, 0-3 on-path operators edit handshake datagrams.
//!
//! The oracle does not trust the victim: every datagram handed to the victim's DTLS layer (and to
//! the peer's) is recorded by a tap, and the harness re-derives from those bytes, with its own
//! parsers, `ring` ECDSA and its own PRF, whether in this handshake (a) a Certificate whose leaf
//! hashes to F was delivered, (b) a ServerKeyExchange was delivered whose signature verifies under
//! that leaf's key over this session's randoms and ECDH parameters, (c) a Finished was delivered
//! whose verify_data confirms a transcript the victim can have seen.

use crate::engine::{AsyncCheck, CaseRec, Check, Ctx, Fail};
use crate::net::fault::{Action, MutOp, Rule, Side};
use crate::net::rig::{self, Pair, PairSpec, state_name};
use crate::net::wire::{self, DClass, DtlsRec};
use crate::refimpl::dtls_hs as hs;
use crate::refimpl::foreign_certs::{self, LeafKind};
use bytes::Bytes;
use parking_lot::Mutex;
use proptest::prelude::*;
use rustrtc::transports::PacketReceiver;
use rustrtc::transports::dtls::{Certificate, DtlsState, DtlsTransport, SessionCrypto, SessionKeys};
use serde::{Deserialize, Serialize};
use serde_json::json;
use std::net::SocketAddr;
use std::sync::Arc;
use std::sync::atomic::{AtomicBool, AtomicU64, Ordering};
use std::time::Duration;

pub const SIG_SERVER: &str = "server-role-never-authenticates-client";
pub const SIG_PLAIN: &str = "plaintext-app-data-accepted-unauthenticated";

pub(crate) const VICTIM_CERT: usize = 5;
/// how many transmissions of a class an "every transmission" operator covers
const ALL_ORD: u16 = 64;
const PLAIN_MARK: &[u8] = b"C02-PLAINTEXT-INJECTED";
const PEER_PROBE: &[u8] = b"C02-PEER-PROBE";

// ------------------------------------------------------------------ case model

#[derive(Clone, Debug, PartialEq, Eq, Serialize, Deserialize)]
pub enum Peer {
    /// (i) the genuine identity: its chain and its key
    Genuine,
    /// (ii) attacker chain + attacker key
    AttackerOwn,
    /// (iii) genuine chain + attacker key
    GenuineChainAttackerKey,
    /// (iv) empty chain
    EmptyChain,
    /// (v) genuine leaf with damaged DER (genuine key)
    MangledLeaf(MutOp),
    /// (vi) two-certificate chain mixing the genuine and the attacker's certificate, attacker key
    MixedChain { genuine_first: bool },
}

#[derive(Clone, Copy, Debug, PartialEq, Eq, Serialize, Deserialize)]
pub enum Fp {
    None,
    /// fingerprint of the genuine identity (what signaling promised)
    Genuine,
    /// fingerprint of the attacker's own certificate
    Attacker,
    /// fingerprint of a certificate nobody presents
    Third,
    /// fingerprint of whatever leaf the peer presents (genuine identity's if it presents none)
    Presented,
}

#[derive(Clone, Copy, Debug, PartialEq, Eq, Serialize, Deserialize)]
pub enum Splice {
    Cert,
    Ske,
    /// ServerHello + Certificate + ServerKeyExchange of the recorded session
    Flight,
}

#[derive(Clone, Debug, PartialEq, Eq, Serialize, Deserialize)]
pub enum Kind {
    Drop,
    Dup { copies: u8, gap_ms: u16 },
    HoldBack { count: u8, max_ms: u16 },
    /// drop every transmission of the class
    Omit,
    /// drop every transmission of the class and close the gap in message_seq of the later
    /// messages of that flight, so they are parsed instead of waiting for the missing one
    OmitRenumber,
    Mutate(MutOp),
    /// flip one bit at an absolute byte offset of the datagram
    FlipAt { byte: u16, bit: u8 },
    /// flip one bit inside the handshake body (behind record and handshake headers)
    FlipBody { pos: u16, bit: u8 },
    /// replace the message by the one recorded in a different session of the genuine identity
    /// (valid but stale signature); message_seq kept, record sequence number moved forward
    SpliceStale(Splice),
    /// rewrite the extended_master_secret extension type in every ClientHello (a downgrade that
    /// leaves both sides with the same keys and different transcripts)
    StripEms,
    /// rewrite the selected SRTP protection profile in every ServerHello (1 <-> 7): an unsigned
    /// negotiation field, both sides keep the same keys and different transcripts
    RewriteSrtpProfile,
    /// re-seal the server's Finished with one verify_data bit flipped (the harness reads the
    /// sending endpoint's keys: a relay that knows the keys)
    RewriteFinished { bit: u8 },
    /// deliver an extra epoch-0 application-data record behind the datagram
    InjectPlainAppData,
}

impl Kind {
    fn name(&self) -> &'static str {
        match self {
            Kind::Drop => "drop",
            Kind::Dup { .. } => "dup",
            Kind::HoldBack { .. } => "holdback",
            Kind::Omit => "omit",
            Kind::OmitRenumber => "omit-renumber",
            Kind::Mutate(MutOp::FlipBit { .. }) => "flipbit",
            Kind::Mutate(MutOp::Truncate { .. }) => "truncate",
            Kind::Mutate(MutOp::SetByte { .. }) => "setbyte",
            Kind::FlipAt { .. } => "flip-at",
            Kind::FlipBody { .. } => "flip-body",
            Kind::SpliceStale(Splice::Cert) => "splice-stale-cert",
            Kind::SpliceStale(Splice::Ske) => "splice-stale-ske",
            Kind::SpliceStale(Splice::Flight) => "splice-stale-flight",
            Kind::StripEms => "strip-ems",
            Kind::RewriteSrtpProfile => "rewrite-srtp-profile",
            Kind::RewriteFinished { .. } => "rewrite-finished",
            Kind::InjectPlainAppData => "inject-plain-appdata",
        }
    }
}

#[derive(Clone, Debug, PartialEq, Eq, Serialize, Deserialize)]
pub struct Op {
    /// datagram sent by the DTLS client (else by the DTLS server)
    pub from_client: bool,
    pub class: DClass,
    pub ordinal: u8,
    pub kind: Kind,
}

/// How the expected-fingerprint STRING handed to the victim is written.
#[derive(Clone, Copy, Debug, Default, PartialEq, Eq, Serialize, Deserialize)]
pub enum FpForm {
    /// upper-case hex pairs joined by ':' (what rustrtc's own `fingerprint()` prints)
    #[default]
    Canonical,
    /// "sha-256 " in front (the SDP attribute value as a whole)
    AlgPrefix,
    Lower,
    NoColons,
    /// one octet missing in the middle
    DropOctet,
    /// ":ZZ" appended
    TrailingGarbage,
    /// one more octet appended
    TrailingOctet,
    Empty,
    Whitespace,
    /// the single octet "00"
    Zero,
}

impl FpForm {
    pub fn apply(self, canonical: &str) -> String {
        match self {
            FpForm::Canonical => canonical.to_string(),
            FpForm::AlgPrefix => format!("sha-256 {canonical}"),
            FpForm::Lower => canonical.to_lowercase(),
            FpForm::NoColons => canonical.replace(':', ""),
            FpForm::DropOctet => {
                let mut v: Vec<&str> = canonical.split(':').collect();
                if v.len() > 16 {
                    v.remove(16);
                }
                v.join(":")
            }
            FpForm::TrailingGarbage => format!("{canonical}:ZZ"),
            FpForm::TrailingOctet => format!("{canonical}:00"),
            FpForm::Empty => String::new(),
            FpForm::Whitespace => "   ".to_string(),
            FpForm::Zero => "00".to_string(),
        }
    }
}

/// A forged Finished for the victim, sent by the harness once the victim holds session keys.
#[derive(Clone, Copy, Debug, PartialEq, Eq, Serialize, Deserialize)]
pub struct Forge {
    /// length of verify_data (the right length is 12)
    pub len: u8,
    /// start from the correct verify_data (cut to `len`, or padded beyond 12) when the harness
    /// can learn the keys from the sending endpoint's published state; garbage otherwise
    pub correct_prefix: bool,
    /// epoch-0 plaintext record (else sealed under the sender's write key when known)
    pub plaintext: bool,
    /// every transmission of the genuine Finished towards the victim is dropped
    pub drop_genuine: bool,
}

#[derive(Clone, Debug, Serialize, Deserialize)]
pub struct Case {
    /// the victim plays the DTLS server (else the client)
    pub victim_server: bool,
    /// which pooled certificate is the genuine identity
    pub g: u8,
    pub peer: Peer,
    pub fp: Fp,
    #[serde(default)]
    pub fp_form: FpForm,
    pub ops: Vec<Op>,
    #[serde(default)]
    pub forge: Option<Forge>,
    /// kind of the genuine identity's certificate. For every kind but P-256 nobody holds the
    /// private key: whoever presents that leaf signs with the attacker's P-256 key.
    #[serde(default)]
    pub leaf: LeafKind,
}

impl Case {
    /// field defaults for struct-update syntax
    fn blank() -> Case {
        Case { victim_server: false, g: 0, peer: Peer::Genuine, fp: Fp::Genuine, fp_form: FpForm::Canonical, ops: vec![], forge: None, leaf: LeafKind::P256 }
    }
}

pub(crate) fn genuine(g: u8) -> Certificate {
    rig::cert(g as usize % 5)
}
pub(crate) fn attacker(g: u8) -> Certificate {
    rig::cert((g as usize + 1) % 5)
}
pub(crate) fn third(g: u8) -> Certificate {
    rig::cert((g as usize + 2) % 5)
}

/// A certificate assembled from parts. `dtls_signing_key` is crate-private and stays `None`
/// (Default), so a server signs its ServerKeyExchange with the key parsed from `private_key`.
fn assemble(chain: Vec<Vec<u8>>, private_key: String) -> Certificate {
    let mut c = Certificate::default();
    c.certificate = chain;
    c.private_key = private_key;
    c
}

/// The genuine identity as an endpoint can play it: its leaf and the key that endpoint signs with.
pub(crate) fn identity(g: u8, leaf: LeafKind) -> Certificate {
    match leaf {
        LeafKind::P256 => genuine(g),
        // a certificate whose key no DTLS endpoint here holds (and which a P-256-only stack cannot
        // use): replayed byte for byte, ServerKeyExchange signed with the attacker's key
        kind => assemble(vec![foreign_certs::leaf(kind, &genuine(g).certificate[0])], attacker(g).private_key),
    }
}

fn peer_certificate(c: &Case) -> Certificate {
    let id = identity(c.g, c.leaf);
    match &c.peer {
        Peer::Genuine => id,
        Peer::AttackerOwn => attacker(c.g),
        // the ServerKeyExchange is signed by a key that is not the presented certificate's
        Peer::GenuineChainAttackerKey => assemble(id.certificate, attacker(c.g).private_key),
        Peer::EmptyChain => assemble(vec![], attacker(c.g).private_key),
        Peer::MixedChain { genuine_first } => {
            let (a, b) = (id.certificate[0].clone(), attacker(c.g).certificate[0].clone());
            assemble(if *genuine_first { vec![a, b] } else { vec![b, a] }, attacker(c.g).private_key)
        }
        Peer::MangledLeaf(m) => assemble(vec![m.apply(&id.certificate[0])], id.private_key),
    }
}

fn expected_fp(c: &Case) -> Option<String> {
    canonical_fp(c).map(|f| c.fp_form.apply(&f))
}

fn canonical_fp(c: &Case) -> Option<String> {
    let of = |cert: &Certificate| hs::sdp_fingerprint(&cert.certificate[0]);
    match c.fp {
        Fp::None => None,
        Fp::Genuine => Some(of(&identity(c.g, c.leaf))),
        Fp::Attacker => Some(of(&attacker(c.g))),
        Fp::Third => Some(of(&third(c.g))),
        Fp::Presented => {
            let p = peer_certificate(c);
            match p.certificate.first() {
                Some(leaf) => Some(hs::sdp_fingerprint(leaf)),
                None => Some(of(&identity(c.g, c.leaf))),
            }
        }
    }
}

// ------------------------------------------------------------------ on-path operators

#[derive(Clone, Copy, Debug)]
pub struct Timing {
    pub retransmit: Duration,
    pub deadline: Duration,
    pub slack: Duration,
}

/// Handshake messages recorded from a different session with the genuine identity as server.
pub struct Stale {
    server_hello: Vec<u8>,
    certificate: Vec<u8>,
    ske: Vec<u8>,
}

struct CustomEv {
    from_victim: bool,
    original: Bytes,
    outs: Vec<Bytes>,
}

struct OnPath {
    ops: Vec<Op>,
    victim_is_client: bool,
    stale: Option<Arc<Stale>>,
    peer_dtls: Arc<DtlsTransport>,
    log: Mutex<Vec<CustomEv>>,
    rewrite_skipped: AtomicBool,
    stale_missing: AtomicBool,
    reseq: AtomicU64,
}

fn rebuild(recs: &[DtlsRec]) -> Vec<u8> {
    let mut v = Vec::new();
    for r in recs {
        let mut b = wire::dtls_record_bytes(r.content_type, r.epoch, r.seq, &r.body);
        b[1] = r.version.0;
        b[2] = r.version.1;
        v.extend_from_slice(&b);
    }
    v
}

/// message_seq -= 1 in every epoch-0 handshake message of the datagram
fn renumber(pkt: &[u8]) -> Vec<u8> {
    let mut recs = wire::dtls_records(pkt);
    for r in recs.iter_mut() {
        if r.content_type != 22 || r.epoch != 0 {
            continue;
        }
        let mut o = 0usize;
        while r.body.len() >= o + 12 {
            let Some(h) = wire::hs_header(&r.body[o..]) else { break };
            let s = h.message_seq.wrapping_sub(1).to_be_bytes();
            r.body[o + 4] = s[0];
            r.body[o + 5] = s[1];
            o += 12 + h.frag_len as usize;
        }
    }
    rebuild(&recs)
}

/// ClientHello: extension type 0x0017 -> 0xff17 (unknown, ignored by the server)
fn strip_ems(pkt: &[u8]) -> Vec<u8> {
    let mut recs = wire::dtls_records(pkt);
    for r in recs.iter_mut() {
        if r.content_type != 22 || r.epoch != 0 || r.body.len() < 12 || r.body[0] != hs::HT_CLIENT_HELLO {
            continue;
        }
        let b = &mut r.body;
        let mut o = 12 + 2 + 32;
        // session_id, cookie (1-byte lengths), cipher suites (2), compression (1)
        for w in [1usize, 1, 2, 1] {
            if b.len() < o + w {
                return rebuild(&recs);
            }
            let l = if w == 1 { b[o] as usize } else { u16::from_be_bytes([b[o], b[o + 1]]) as usize };
            o += w + l;
        }
        if b.len() < o + 2 {
            break;
        }
        o += 2;
        while b.len() >= o + 4 {
            let t = u16::from_be_bytes([b[o], b[o + 1]]);
            let l = u16::from_be_bytes([b[o + 2], b[o + 3]]) as usize;
            if t == 23 {
                b[o] = 0xff;
            }
            o += 4 + l;
        }
    }
    rebuild(&recs)
}

/// ServerHello: use_srtp extension, selected profile 0x0001 <-> 0x0007
fn rewrite_srtp_profile(pkt: &[u8]) -> Vec<u8> {
    let mut recs = wire::dtls_records(pkt);
    for r in recs.iter_mut() {
        if r.content_type != 22 || r.epoch != 0 || r.body.len() < 12 || r.body[0] != hs::HT_SERVER_HELLO {
            continue;
        }
        let b = &mut r.body;
        // header(12) version(2) random(32) session_id(1+n) cipher(2) compression(1) ext_len(2)
        let mut o = 12 + 34;
        if b.len() < o + 1 {
            break;
        }
        o += 1 + b[o] as usize + 3 + 2;
        while b.len() >= o + 4 {
            let t = u16::from_be_bytes([b[o], b[o + 1]]);
            let l = u16::from_be_bytes([b[o + 2], b[o + 3]]) as usize;
            if t == 14 && l >= 5 && b.len() >= o + 8 {
                b[o + 7] = if b[o + 7] == 1 { 7 } else { 1 };
            }
            o += 4 + l;
        }
    }
    rebuild(&recs)
}

impl OnPath {
    fn from_victim(&self, op: &Op) -> bool {
        op.from_client == self.victim_is_client
    }

    fn splice(&self, pkt: &[u8]) -> Vec<u8> {
        let Some(st) = &self.stale else {
            self.stale_missing.store(true, Ordering::Relaxed);
            return pkt.to_vec();
        };
        let mut recs = wire::dtls_records(pkt);
        let Some(r) = recs.first_mut() else { return pkt.to_vec() };
        if r.content_type != 22 || r.epoch != 0 || r.body.len() < 12 {
            return pkt.to_vec();
        }
        let src = match r.body[0] {
            hs::HT_SERVER_HELLO => &st.server_hello,
            hs::HT_CERTIFICATE => &st.certificate,
            hs::HT_SERVER_KEY_EXCHANGE => &st.ske,
            _ => return pkt.to_vec(),
        };
        let mut m = src.clone();
        m[4] = r.body[4];
        m[5] = r.body[5];
        r.body = m;
        // a fresh, higher record sequence number so no replay filter would discard it
        r.seq = (r.seq + 0x100 + self.reseq.fetch_add(1, Ordering::Relaxed)) & 0xFFFF_FFFF_FFFF;
        recs.truncate(1);
        rebuild(&recs)
    }

    fn rewrite_finished(&self, pkt: &[u8], bit: u8) -> Vec<u8> {
        // the sending endpoint publishes its keys when it enters Connected, which a server does
        // right after handing its Finished to the socket
        let mut crypto: Option<Arc<SessionCrypto>> = None;
        for _ in 0..60 {
            if let DtlsState::Connected(c, _) = self.peer_dtls.get_state() {
                crypto = Some(c);
                break;
            }
            std::thread::sleep(Duration::from_micros(500));
        }
        let Some(c) = crypto else {
            self.rewrite_skipped.store(true, Ordering::Relaxed);
            return pkt.to_vec();
        };
        // the peer is the sender; it is the server exactly when the victim is the client
        let (key, iv) = if self.victim_is_client {
            (&c.keys.server_write_key, &c.keys.server_write_iv)
        } else {
            (&c.keys.client_write_key, &c.keys.client_write_iv)
        };
        let mut out = Vec::new();
        let mut done = false;
        for r in wire::dtls_records(pkt) {
            if r.content_type == 22 && r.epoch >= 1 && !done {
                if let Some(mut plain) = wire::dtls_open(key, iv, &r) {
                    if plain.len() >= 24 && plain[0] == hs::HT_FINISHED {
                        let i = 12 + ((bit as usize / 8) % 12);
                        plain[i] ^= 1 << (bit & 7);
                        out.extend_from_slice(&wire::dtls_seal(key, iv, 22, r.epoch, r.seq, &plain));
                        done = true;
                        continue;
                    }
                }
            }
            out.extend_from_slice(&rebuild(std::slice::from_ref(&r)));
        }
        if !done {
            self.rewrite_skipped.store(true, Ordering::Relaxed);
        }
        out
    }

    fn apply(&self, k: u8, pkt: &Bytes) -> Vec<Bytes> {
        let Some(op) = self.ops.get(k as usize) else { return vec![pkt.clone()] };
        let one = |v: Vec<u8>| vec![Bytes::from(v)];
        let outs: Vec<Bytes> = match &op.kind {
            Kind::Mutate(m) => one(m.apply(pkt)),
            Kind::FlipAt { byte, bit } => {
                let mut v = pkt.to_vec();
                if let Some(b) = v.get_mut(*byte as usize) {
                    *b ^= 1 << (bit & 7);
                }
                one(v)
            }
            Kind::FlipBody { pos, bit } => {
                let mut v = pkt.to_vec();
                let plain_hs = matches!(
                    wire::dtls_class(pkt),
                    DClass::ClientHello | DClass::ServerHello | DClass::Certificate | DClass::ServerKeyExchange | DClass::ServerHelloDone | DClass::ClientKeyExchange
                );
                let start = if plain_hs && v.len() > 25 { 25 } else { 13.min(v.len().saturating_sub(1)) };
                let span = v.len() - start;
                if span > 0 {
                    let i = start + ((*pos as usize * span) >> 16);
                    v[i] ^= 1 << (bit & 7);
                }
                one(v)
            }
            Kind::OmitRenumber => one(renumber(pkt)),
            Kind::SpliceStale(_) => one(self.splice(pkt)),
            Kind::StripEms => one(strip_ems(pkt)),
            Kind::RewriteSrtpProfile => one(rewrite_srtp_profile(pkt)),
            Kind::RewriteFinished { bit } => one(self.rewrite_finished(pkt, *bit)),
            Kind::InjectPlainAppData => vec![
                pkt.clone(),
                Bytes::from(wire::dtls_record_bytes(23, 0, 0x7777, PLAIN_MARK)),
            ],
            _ => vec![pkt.clone()],
        };
        let outs: Vec<Bytes> = outs.into_iter().filter(|b| !b.is_empty()).collect();
        self.log.lock().push(CustomEv {
            from_victim: self.from_victim(op),
            original: pkt.clone(),
            outs: outs.clone(),
        });
        outs
    }
}

const SERVER_FLIGHT: [DClass; 4] = [
    DClass::ServerHello,
    DClass::Certificate,
    DClass::ServerKeyExchange,
    DClass::ServerHelloDone,
];

/// Datagram rules for the operators; `owner[i]` is the operator a rule belongs to.
fn rules_for(c: &Case) -> (Vec<Rule<DClass>>, Vec<usize>) {
    let victim = Side::A;
    let victim_is_client = !c.victim_server;
    let mut rules = Vec::new();
    let mut owner = Vec::new();
    // Guard: the client's very first ClientHello is dropped, so nothing can reach an endpoint
    // before the taps and the operator hook are installed (the rig starts the endpoints inside
    // `Pair::build`). The client retransmits the identical datagram one retransmit interval later;
    // that transmission is what the operators call ordinal 0.
    let client_side = if victim_is_client { victim } else { victim.other() };
    rules.push(Rule { from: client_side, class: DClass::ClientHello, ordinal: 0, action: Action::Drop });
    owner.push(usize::MAX);
    if let Some(fg) = &c.forge {
        if fg.drop_genuine {
            for o in 0..ALL_ORD {
                rules.push(Rule { from: victim.other(), class: DClass::Finished, ordinal: o, action: Action::Drop });
                owner.push(usize::MAX);
            }
        }
    }
    for (i, op) in c.ops.iter().enumerate() {
        let from = if op.from_client == victim_is_client { victim } else { victim.other() };
        let shift = if op.from_client && op.class == DClass::ClientHello { 1u16 } else { 0 };
        let ord = op.ordinal as u16 + shift;
        let mut push = |class: DClass, ordinal: u16, action: Action| {
            rules.push(Rule { from, class, ordinal, action });
            owner.push(i);
        };
        let k = Action::Custom(i as u8);
        match &op.kind {
            Kind::Drop => push(op.class, ord, Action::Drop),
            Kind::Dup { copies, gap_ms } => push(op.class, ord, Action::Dup { copies: *copies, gap_ms: *gap_ms }),
            Kind::HoldBack { count, max_ms } => push(op.class, ord, Action::HoldBack { count: *count, max_ms: *max_ms }),
            Kind::Omit => {
                for o in shift..ALL_ORD {
                    push(op.class, o, Action::Drop);
                }
            }
            Kind::OmitRenumber => {
                let at = SERVER_FLIGHT.iter().position(|x| *x == op.class).unwrap_or(0);
                for o in 0..ALL_ORD {
                    push(SERVER_FLIGHT[at], o, Action::Drop);
                    for later in &SERVER_FLIGHT[at + 1..] {
                        push(*later, o, k.clone());
                    }
                }
            }
            Kind::SpliceStale(Splice::Flight) => {
                for cl in &SERVER_FLIGHT[..3] {
                    push(*cl, ord, k.clone());
                }
            }
            Kind::StripEms | Kind::RewriteSrtpProfile | Kind::RewriteFinished { .. } => {
                for o in shift..ALL_ORD {
                    push(op.class, o, k.clone());
                }
            }
            _ => push(op.class, ord, k),
        }
    }
    (rules, owner)
}

// ------------------------------------------------------------------ session

pub(crate) struct Tap {
    pub(crate) log: Mutex<Vec<Bytes>>,
    pub(crate) inner: Arc<DtlsTransport>,
}

#[async_trait::async_trait]
impl PacketReceiver for Tap {
    async fn receive(&self, packet: Bytes, addr: SocketAddr, marshal_buf: &mut Vec<u8>) {
        self.log.lock().push(packet.clone());
        self.inner.receive(packet, addr, marshal_buf).await;
    }
}

pub struct Observed {
    /// datagrams handed to the victim's DTLS layer / to the peer's, in order
    v_in: Vec<Bytes>,
    p_in: Vec<Bytes>,
    custom: Vec<CustomEv>,
    states: Vec<&'static str>,
    final_state: &'static str,
    ever_connected: bool,
    victim_crypto: Option<Arc<SessionCrypto>>,
    peer_crypto: Option<Arc<SessionCrypto>>,
    app: Vec<Bytes>,
    ekm_ok: bool,
    fired_ops: Vec<bool>,
    rewrite_skipped: bool,
    stale_missing: bool,
    /// a forged Finished was injected: (started from the correct verify_data, sealed under the sender's key)
    forged: Option<(bool, bool)>,
}

/// Build the forged Finished datagram for the victim from what the taps have seen so far.
fn forge_finished(c: &Case, fg: &Forge, v_in: &[Bytes], p_in: &[Bytes], peer: &DtlsState) -> (Bytes, bool, bool) {
    let to_v: Vec<hs::HsMsg> = v_in.iter().flat_map(|d| hs::plaintext_hs(d)).collect();
    let next_seq = to_v.iter().filter(|m| m.msg_type != hs::HT_FINISHED).map(|m| m.message_seq).max().map(|s| s.wrapping_add(1)).unwrap_or(0);
    let mut vd: Vec<u8> = (0..fg.len).map(|i| 0xC3u8.wrapping_add(i.wrapping_mul(7))).collect();
    let mut correct = false;
    let mut seal: Option<(Vec<u8>, Vec<u8>)> = None;
    // keys are known only through an endpoint that already published them: a server peer that
    // accepted the client victim's Finished
    if let (false, DtlsState::Connected(pc, _)) = (c.victim_server, peer) {
        let k = &pc.keys;
        seal = Some((k.server_write_key.clone(), k.server_write_iv.clone()));
        if fg.correct_prefix {
            let from_v: Vec<hs::HsMsg> = p_in.iter().flat_map(|d| hs::plaintext_hs(d)).collect();
            let first = |v: &Vec<hs::HsMsg>, t: u8| v.iter().find(|m| m.msg_type == t && m.whole()).map(|m| m.raw.clone());
            let own_fin = p_in.iter().flat_map(|d| hs::protected_hs_records(d)).find_map(|r| {
                wire::dtls_open(&k.client_write_key, &k.client_write_iv, &r).and_then(|p| hs::hs_messages(&p).into_iter().find(|m| m.msg_type == hs::HT_FINISHED).map(|m| m.raw))
            });
            let parts = [
                first(&from_v, hs::HT_CLIENT_HELLO),
                first(&to_v, hs::HT_SERVER_HELLO),
                first(&to_v, hs::HT_CERTIFICATE),
                first(&to_v, hs::HT_SERVER_KEY_EXCHANGE),
                first(&to_v, hs::HT_SERVER_HELLO_DONE),
                first(&from_v, hs::HT_CLIENT_KEY_EXCHANGE),
                own_fin,
            ];
            if parts.iter().all(|p| p.is_some()) {
                let t: Vec<u8> = parts.iter().flat_map(|p| p.clone().unwrap()).collect();
                let right = hs::verify_data(&k.master_secret, b"server finished", &t);
                vd = right.iter().cloned().chain(std::iter::repeat(0xEE)).take(fg.len as usize).collect();
                correct = true;
            }
        }
    }
    let msg = hs::build_hs(hs::HT_FINISHED, next_seq, &vd);
    match (&seal, fg.plaintext) {
        (Some((key, iv)), false) => (Bytes::from(wire::dtls_seal(key, iv, 22, 1, 0x20, &msg)), correct, true),
        _ => (Bytes::from(wire::dtls_record_bytes(22, 0, 0x6000, &msg)), correct, false),
    }
}

async fn run_session(c: &Case, tm: Timing, stale: Option<Arc<Stale>>) -> anyhow::Result<Observed> {
    let (rules, owner) = rules_for(c);
    for _attempt in 0..4 {
        let spec = PairSpec {
            dgram_rules: rules.clone(),
            sctp_rules: vec![],
            dtls_timers: Some((tm.retransmit, tm.deadline)),
            cert_a: rig::cert(VICTIM_CERT),
            cert_b: peer_certificate(c),
            expected_fp_a: expected_fp(c),
            expected_fp_b: None,
            sctp: None,
            keep_trace: true,
            a_is_client: !c.victim_server,
        };
        let mut pair = Pair::build(spec).await?;
        let onpath = Arc::new(OnPath {
            ops: c.ops.clone(),
            victim_is_client: !c.victim_server,
            stale: stale.clone(),
            peer_dtls: pair.b.dtls.clone(),
            log: Mutex::new(Vec::new()),
            rewrite_skipped: AtomicBool::new(false),
            stale_missing: AtomicBool::new(false),
            reseq: AtomicU64::new(0),
        });
        let tap_v = Arc::new(Tap { log: Mutex::new(Vec::new()), inner: pair.a.dtls.clone() });
        let tap_p = Arc::new(Tap { log: Mutex::new(Vec::new()), inner: pair.b.dtls.clone() });
        // No datagram can pass the fault layer while its lock is held: install the operator hook
        // and both taps under it, and start over if a datagram slipped through before.
        let raced = {
            let mut g = pair.dgram.lock();
            // only the guard's drop of the first ClientHello may have happened so far
            let raced = g.trace.iter().any(|e| !(e.class == DClass::ClientHello && e.action == Some(Action::Drop)));
            let op = onpath.clone();
            g.custom = Some(Arc::new(move |k: u8, b: &Bytes| op.apply(k, b)));
            pair.a.conn.set_dtls_receiver(tap_v.clone());
            pair.b.conn.set_dtls_receiver(tap_p.clone());
            raced
        };
        if raced {
            drop(pair);
            continue;
        }

        let mut rx = pair.a.dtls.subscribe_state();
        let limit = tokio::time::Instant::now() + tm.deadline + tm.slack;
        let mut states: Vec<&'static str> = Vec::new();
        let mut victim_crypto = None;
        let mut ever_connected = false;
        fn note(s: &DtlsState, states: &mut Vec<&'static str>, ever: &mut bool, crypto: &mut Option<Arc<SessionCrypto>>) {
            let n = state_name(s);
            if states.last() != Some(&n) {
                states.push(n);
            }
            if let DtlsState::Connected(cr, _) = s {
                *ever = true;
                *crypto = Some(cr.clone());
            }
        }
        let mut forged: Option<(bool, bool)> = None;
        let mut forge_at: Option<tokio::time::Instant> = None;
        loop {
            let s = rx.borrow_and_update().clone();
            note(&s, &mut states, &mut ever_connected, &mut victim_crypto);
            if matches!(s, DtlsState::Connected(..) | DtlsState::Failed | DtlsState::Closed) {
                break;
            }
            if let (Some(fg), None) = (&c.forge, forged) {
                // the victim holds session keys once it has sent its own Finished (client) /
                // once the ClientKeyExchange has been handed to it (server)
                let ready = if c.victim_server {
                    tap_v.log.lock().iter().any(|d| wire::dtls_class(d) == DClass::ClientKeyExchange)
                } else {
                    tap_p.log.lock().iter().any(|d| wire::dtls_class(d) == DClass::Finished)
                        || onpath.log.lock().iter().any(|e| e.from_victim && wire::dtls_class(&e.original) == DClass::Finished)
                };
                if ready && forge_at.is_none() {
                    // give a server peer the time to verify the victim's Finished and publish keys
                    forge_at = Some(tokio::time::Instant::now() + Duration::from_millis(if c.victim_server { 4 } else { 25 }));
                }
                let peer_now = pair.b.dtls.get_state();
                let due = forge_at.map(|t| tokio::time::Instant::now() >= t).unwrap_or(false);
                if ready && (due || (!c.victim_server && matches!(peer_now, DtlsState::Connected(..)))) {
                    let (v_in, p_in) = (tap_v.log.lock().clone(), tap_p.log.lock().clone());
                    let (d, correct, sealed) = forge_finished(c, fg, &v_in, &p_in, &peer_now);
                    forged = Some((correct, sealed));
                    pair.inject(Side::A, d, pair.a.proxy_addr).await;
                    continue;
                }
            }
            let poll = c.forge.is_some() && forged.is_none();
            tokio::select! {
                r = rx.changed() => { if r.is_err() { break; } }
                _ = tokio::time::sleep(Duration::from_millis(3)), if poll => {}
                _ = tokio::time::sleep_until(limit) => { break; }
            }
        }
        // let the last flight reach the peer, then have a connected peer speak
        let mut peer_state = pair.b.dtls.get_state();
        if ever_connected && !matches!(peer_state, DtlsState::Connected(..)) {
            for _ in 0..20 {
                tokio::time::sleep(Duration::from_millis(5)).await;
                peer_state = pair.b.dtls.get_state();
                if !matches!(peer_state, DtlsState::Handshaking | DtlsState::New) {
                    break;
                }
            }
        }
        let mut peer_crypto = None;
        if let DtlsState::Connected(cr, _) = &peer_state {
            peer_crypto = Some(cr.clone());
            let _ = pair.b.dtls.send(Bytes::from_static(PEER_PROBE)).await;
            tokio::time::sleep(Duration::from_millis(30)).await;
        } else if ever_connected {
            tokio::time::sleep(Duration::from_millis(20)).await;
        }
        let fin = pair.a.dtls.get_state();
        note(&fin, &mut states, &mut ever_connected, &mut victim_crypto);
        let final_state = state_name(&fin);
        let ekm_ok = pair.a.dtls.export_keying_material("EXTRACTOR-dtls_srtp", 60).is_ok();
        let mut app = Vec::new();
        if let Some(rx) = pair.a.app_rx.as_mut() {
            while let Ok(b) = rx.try_recv() {
                app.push(b);
            }
        }
        let fired = pair.dgram.lock().fired.clone();
        let mut fired_ops = vec![false; c.ops.len()];
        for (i, f) in fired.iter().enumerate() {
            if *f && owner[i] != usize::MAX {
                fired_ops[owner[i]] = true;
            }
        }
        drop(pair);
        let custom = std::mem::take(&mut *onpath.log.lock());
        return Ok(Observed {
            v_in: std::mem::take(&mut *tap_v.log.lock()),
            p_in: std::mem::take(&mut *tap_p.log.lock()),
            custom,
            states,
            final_state,
            ever_connected,
            victim_crypto,
            peer_crypto,
            app,
            ekm_ok,
            fired_ops,
            rewrite_skipped: onpath.rewrite_skipped.load(Ordering::Relaxed),
            stale_missing: onpath.stale_missing.load(Ordering::Relaxed),
            forged,
        });
    }
    anyhow::bail!("could not install the taps before the first datagram (4 attempts)")
}

async fn record_stale(g: u8, tm: Timing) -> Option<Stale> {
    let c = Case { victim_server: false, g, peer: Peer::Genuine, fp: Fp::Genuine, ops: vec![], ..Case::blank() };
    for _ in 0..3 {
        let Ok(o) = run_session(&c, tm, None).await else { continue };
        if !o.ever_connected {
            continue;
        }
        let msgs: Vec<hs::HsMsg> = o.v_in.iter().flat_map(|d| hs::plaintext_hs(d)).collect();
        let find = |t: u8| msgs.iter().find(|m| m.msg_type == t && m.whole()).map(|m| m.raw.clone());
        if let (Some(server_hello), Some(certificate), Some(ske)) =
            (find(hs::HT_SERVER_HELLO), find(hs::HT_CERTIFICATE), find(hs::HT_SERVER_KEY_EXCHANGE))
        {
            return Some(Stale { server_hello, certificate, ske });
        }
    }
    None
}

// ------------------------------------------------------------------ oracle

pub(crate) struct Analysis {
    pub(crate) to_victim: Vec<hs::HsMsg>,
    pub(crate) from_victim: Vec<hs::HsMsg>,
    pub(crate) to_victim_prot: Vec<DtlsRec>,
    pub(crate) from_victim_prot: Vec<DtlsRec>,
    /// payloads of epoch-0 application-data records handed to the victim
    pub(crate) plain_app_to_victim: Vec<Vec<u8>>,
}

fn analyse(o: &Observed) -> Analysis {
    // what the victim put on the wire: what reached the peer unedited, plus the originals of
    // datagrams an operator edited on the way
    let mut edited: Vec<&Bytes> = Vec::new();
    let mut originals: Vec<&Bytes> = Vec::new();
    for ev in &o.custom {
        if ev.from_victim {
            originals.push(&ev.original);
            for out in &ev.outs {
                if out != &ev.original {
                    edited.push(out);
                }
            }
        }
    }
    let mut from_v: Vec<&Bytes> = o.p_in.iter().filter(|d| !edited.contains(d)).collect();
    from_v.extend(originals);
    analyse_datagrams(&o.v_in, &from_v)
}

/// `v_in`: datagrams handed to the victim's DTLS layer; `from_v`: datagrams the victim sent.
pub(crate) fn analyse_datagrams(v_in: &[Bytes], from_v: &[&Bytes]) -> Analysis {
    let mut a = Analysis {
        to_victim: Vec::new(),
        from_victim: Vec::new(),
        to_victim_prot: Vec::new(),
        from_victim_prot: Vec::new(),
        plain_app_to_victim: Vec::new(),
    };
    for d in v_in {
        a.to_victim.extend(hs::plaintext_hs(d));
        a.to_victim_prot.extend(hs::protected_hs_records(d));
        for r in wire::dtls_records(d) {
            if r.content_type == 23 && r.epoch == 0 {
                a.plain_app_to_victim.push(r.body.clone());
            }
        }
    }
    for d in from_v {
        let d: &Bytes = d;
        a.from_victim.extend(hs::plaintext_hs(d));
        a.from_victim_prot.extend(hs::protected_hs_records(d));
    }
    a
}

pub(crate) struct ClientAuth {
    pub(crate) any_certificate: bool,
    pub(crate) cert_match: bool,
    pub(crate) key_proof: bool,
    /// what the search for a proof looked at
    pub(crate) detail: String,
}

/// Did this handshake show the (client) victim a leaf hashing to F and a ServerKeyExchange signed
/// by that leaf's key over this session's randoms and parameters?
pub(crate) fn client_auth(f: &str, a: &Analysis) -> ClientAuth {
    let mut r = ClientAuth { any_certificate: false, cert_match: false, key_proof: false, detail: String::new() };
    let mut leaves: Vec<Vec<u8>> = Vec::new();
    for m in a.to_victim.iter().filter(|m| m.msg_type == hs::HT_CERTIFICATE) {
        if let Some(list) = hs::certificate_list(&m.body) {
            if let Some(leaf) = list.first() {
                r.any_certificate = true;
                if hs::fingerprint_names(f, leaf) && !leaves.contains(leaf) {
                    leaves.push(leaf.clone());
                }
            }
        }
    }
    r.cert_match = !leaves.is_empty();
    let crs: Vec<[u8; 32]> = a.from_victim.iter().filter(|m| m.msg_type == hs::HT_CLIENT_HELLO).filter_map(|m| hs::hello_random(&m.body)).collect();
    let srs: Vec<[u8; 32]> = a.to_victim.iter().filter(|m| m.msg_type == hs::HT_SERVER_HELLO).filter_map(|m| hs::hello_random(&m.body)).collect();
    let skes: Vec<hs::Ske> = a.to_victim.iter().filter(|m| m.msg_type == hs::HT_SERVER_KEY_EXCHANGE).filter_map(|m| hs::parse_ske(&m.body)).collect();
    let dedup = |v: Vec<[u8; 32]>| {
        let mut out: Vec<[u8; 32]> = Vec::new();
        for x in v {
            if !out.contains(&x) {
                out.push(x);
            }
        }
        out
    };
    let (crs, srs) = (dedup(crs), dedup(srs));
    r.detail = format!(
        "matching leaves {} (P-256 keys located: {:?}), ServerKeyExchange messages {}, client randoms {}, server randoms {}",
        leaves.len(),
        leaves.iter().map(|l| hs::p256_points(l).len()).collect::<Vec<_>>(),
        skes.len(),
        crs.len(),
        srs.len()
    );
    if std::env::var("C02_DEBUG").is_ok() {
        for l in &leaves {
            eprintln!("[c02] matching leaf {}", crate::engine::hex(l));
        }
    }
    'all: for leaf in &leaves {
        for p in hs::p256_points(leaf) {
            for ske in &skes {
                for cr in &crs {
                    for sr in &srs {
                        if hs::ske_signature_valid(&p, cr, sr, ske) {
                            r.key_proof = true;
                            break 'all;
                        }
                    }
                }
            }
        }
    }
    r
}

/// A server can only authenticate its client through Certificate + CertificateVerify.
fn server_auth(f: &str, a: &Analysis) -> bool {
    let cert = a.to_victim.iter().filter(|m| m.msg_type == hs::HT_CERTIFICATE).any(|m| {
        hs::certificate_list(&m.body).and_then(|l| l.first().cloned()).map(|leaf| hs::fingerprint_names(f, &leaf)).unwrap_or(false)
    });
    let cv = a.to_victim.iter().any(|m| m.msg_type == hs::HT_CERTIFICATE_VERIFY);
    cert && cv
}

fn uniq_raw<'a>(it: impl Iterator<Item = &'a hs::HsMsg>, t: u8) -> Vec<Vec<u8>> {
    let mut out: Vec<Vec<u8>> = Vec::new();
    for m in it {
        if m.msg_type == t && m.whole() && !out.contains(&m.raw) {
            out.push(m.raw.clone());
        }
    }
    out
}

fn finished_msgs(recs: &[DtlsRec], key: &[u8], iv: &[u8]) -> Vec<hs::HsMsg> {
    finished_msgs_with(recs, key, iv, &[])
}

/// Finished messages in protected records that open under (key, iv), plus those delivered in the
/// clear (`plain`: epoch-0 handshake messages).
fn finished_msgs_with(recs: &[DtlsRec], key: &[u8], iv: &[u8], plain: &[hs::HsMsg]) -> Vec<hs::HsMsg> {
    let mut out: Vec<hs::HsMsg> = plain.iter().filter(|m| m.msg_type == hs::HT_FINISHED).cloned().collect();
    for r in recs {
        if let Some(p) = wire::dtls_open(key, iv, r) {
            for m in hs::hs_messages(&p) {
                if m.msg_type == hs::HT_FINISHED && m.whole() && !out.contains(&m) {
                    out.push(m);
                }
            }
        }
    }
    out
}

pub(crate) struct FinishedCheck {
    pub(crate) confirmed: bool,
    pub(crate) delivered: usize,
    pub(crate) transcripts: usize,
}

/// Was a Finished delivered to the victim whose verify_data is the right one for some transcript
/// the victim can have assembled from what it sent and what was delivered to it?
pub(crate) fn finished_check(victim_server: bool, a: &Analysis, keys: &SessionKeys) -> FinishedCheck {
    let (ck, civ, sk, siv) = (&keys.client_write_key, &keys.client_write_iv, &keys.server_write_key, &keys.server_write_iv);
    let (slots, label, delivered): (Vec<Vec<Vec<u8>>>, &[u8], Vec<hs::HsMsg>) = if !victim_server {
        let own_fin: Vec<Vec<u8>> = finished_msgs(&a.from_victim_prot, ck, civ).into_iter().map(|m| m.raw).collect();
        (
            vec![
                uniq_raw(a.from_victim.iter(), hs::HT_CLIENT_HELLO),
                uniq_raw(a.to_victim.iter(), hs::HT_SERVER_HELLO),
                uniq_raw(a.to_victim.iter(), hs::HT_CERTIFICATE),
                uniq_raw(a.to_victim.iter(), hs::HT_SERVER_KEY_EXCHANGE),
                uniq_raw(a.to_victim.iter(), hs::HT_SERVER_HELLO_DONE),
                uniq_raw(a.from_victim.iter(), hs::HT_CLIENT_KEY_EXCHANGE),
                own_fin,
            ],
            b"server finished",
            finished_msgs_with(&a.to_victim_prot, sk, siv, &a.to_victim),
        )
    } else {
        (
            vec![
                uniq_raw(a.to_victim.iter(), hs::HT_CLIENT_HELLO),
                uniq_raw(a.from_victim.iter(), hs::HT_SERVER_HELLO),
                uniq_raw(a.from_victim.iter(), hs::HT_CERTIFICATE),
                uniq_raw(a.from_victim.iter(), hs::HT_SERVER_KEY_EXCHANGE),
                uniq_raw(a.from_victim.iter(), hs::HT_SERVER_HELLO_DONE),
                uniq_raw(a.to_victim.iter(), hs::HT_CLIENT_KEY_EXCHANGE),
            ],
            b"client finished",
            finished_msgs_with(&a.to_victim_prot, ck, civ, &a.to_victim),
        )
    };
    let mut res = FinishedCheck { confirmed: false, delivered: delivered.len(), transcripts: 0 };
    if slots.iter().any(|s| s.is_empty()) || delivered.is_empty() {
        return res;
    }
    let mut idx = vec![0usize; slots.len()];
    loop {
        let mut t = Vec::new();
        for (s, i) in slots.iter().zip(&idx) {
            t.extend_from_slice(&s[*i]);
        }
        res.transcripts += 1;
        let vd = hs::verify_data(&keys.master_secret, label, &t);
        if delivered.iter().any(|m| m.body == vd) {
            res.confirmed = true;
            return res;
        }
        if res.transcripts >= 20_000 {
            return res;
        }
        let mut p = slots.len();
        loop {
            if p == 0 {
                return res;
            }
            p -= 1;
            idx[p] += 1;
            if idx[p] < slots[p].len() {
                break;
            }
            idx[p] = 0;
        }
    }
}

pub struct Shared {
    /// clause "a server victim authenticates its client" is switched off (known finding)
    skip_server_auth: bool,
    server_auth_skipped: AtomicU64,
    stale: Vec<Option<Arc<Stale>>>,
    tm: Timing,
}

fn judge(c: &Case, o: &Observed, sh: &Shared, force_server_auth: bool, rec: &CaseRec) -> Check {
    let role = if c.victim_server { "server" } else { "client" };
    rec.label(format!("victim={role}"));
    rec.label(format!(
        "peer={}",
        match &c.peer {
            Peer::Genuine => "genuine",
            Peer::AttackerOwn => "attacker-own",
            Peer::GenuineChainAttackerKey => "genuine-chain-attacker-key",
            Peer::EmptyChain => "empty-chain",
            Peer::MangledLeaf(_) => "mangled-leaf",
            Peer::MixedChain { .. } => "mixed-chain",
        }
    ));
    rec.label(format!("fp={:?}", c.fp));
    if c.leaf != LeafKind::P256 {
        rec.label(format!("leaf={:?}", c.leaf));
    }
    if c.fp_form != FpForm::Canonical && c.fp != Fp::None {
        rec.label(format!("fp-form={:?}", c.fp_form));
    }
    if let Some(fg) = &c.forge {
        match o.forged {
            Some((correct, sealed)) => rec.label(format!(
                "forged-finished:{}:len={}:{}:{}",
                role,
                fg.len,
                if correct { "correct-prefix" } else { "garbage" },
                if sealed { "sealed" } else { "plaintext" }
            )),
            None => rec.label("forged-finished:not-sent(victim never held keys)"),
        }
    }
    rec.label(format!("end={}:{}", role, o.final_state));
    let mut fired = 0;
    for (op, f) in c.ops.iter().zip(&o.fired_ops) {
        if *f {
            fired += 1;
            rec.label(format!("op:{}:{}", op.kind.name(), role));
        }
    }
    if o.rewrite_skipped {
        rec.label("rewrite-finished-skipped(no keys yet)");
    }
    if o.stale_missing {
        rec.label("splice-skipped(no recording)");
    }
    let connected = o.ever_connected;
    if connected {
        rec.label(format!("connected:{role}"));
    }
    let Some(f) = expected_fp(c) else {
        // the statement is conditional on an expected fingerprint
        rec.label("nothing-asserted(fp=None)");
        return Ok(());
    };
    let a = analyse(o);
    let describe = |what: &str| {
        format!(
            "{what}; victim={role} leaf={:?} peer={:?} fp={:?}/{:?} forge={:?} ops={:?} states={:?} final={} ever_connected={} ekm_ok={} app_records={} delivered_to_victim={} dgrams",
            c.leaf, c.peer, c.fp, c.fp_form, c.forge, c.ops, o.states, o.final_state, connected, o.ekm_ok, o.app.len(), o.v_in.len()
        )
    };

    // key confirmation and key agreement (both roles)
    let mut fin_note = String::new();
    if connected {
        let Some(vc) = &o.victim_crypto else {
            return Err(Fail::new("harness-error", "Connected without crypto"));
        };
        let fc = finished_check(c.victim_server, &a, &vc.keys);
        fin_note = format!("finished: delivered={} transcripts_tried={} confirmed={}", fc.delivered, fc.transcripts, fc.confirmed);
        if !fc.confirmed {
            return Err(Fail::new(
                "connected-without-valid-finished",
                describe(&format!("the victim reached Connected although no Finished delivered to it carries the verify_data of a transcript it can have seen ({fin_note})")),
            ));
        }
        if let Some(pc) = &o.peer_crypto {
            if pc.keys.master_secret != vc.keys.master_secret {
                return Err(Fail::new("connected-on-different-keys", describe("victim and peer are both Connected with different master secrets")));
            }
        }
    }

    let plaintext_app = o.app.iter().any(|p| a.plain_app_to_victim.iter().any(|q| q[..] == p[..]));
    if !c.victim_server {
        let au = client_auth(&f, &a);
        let auth_ok = au.cert_match && au.key_proof;
        rec.label(if auth_ok { "client:authenticated" } else { "client:not-authenticated" });
        let impostor = c.peer != Peer::Genuine || !matches!(c.fp, Fp::Genuine | Fp::Presented) || c.fp_form != FpForm::Canonical || c.leaf != LeafKind::P256;
        rec.set_nontrivial(impostor || fired > 0 || o.forged.is_some());
        if connected && !au.cert_match {
            let sig = if au.any_certificate { "client-connected-without-matching-certificate" } else { "client-connected-without-certificate" };
            return Err(Fail::new(sig, describe("the client victim reached Connected although no Certificate delivered in this handshake has a leaf whose SHA-256 equals the expected fingerprint")));
        }
        if connected && !au.key_proof {
            return Err(Fail::new(
                "client-connected-without-key-proof",
                describe(&format!("the client victim reached Connected although no ServerKeyExchange delivered in this handshake is signed by the key of the leaf that matches the expected fingerprint (over this session's randoms and ECDH parameters) [{}]", au.detail)),
            ));
        }
        if !auth_ok {
            if o.ekm_ok {
                return Err(Fail::new("ekm-exported-unauthenticated", describe("export_keying_material succeeded although the peer was not authenticated")));
            }
            if !o.app.is_empty() && !plaintext_app {
                return Err(Fail::new("app-data-accepted-unauthenticated", describe("application data was delivered although the peer was not authenticated")));
            }
            match o.final_state {
                "Failed" => {}
                "Handshaking" | "New" => {
                    return Err(Fail::timing(
                        "unauthenticated-not-failed-by-deadline",
                        describe(&format!("the peer was not authenticated and the victim is not Failed {:?} after its handshake deadline", sh.tm.slack)),
                    ));
                }
                other => {
                    return Err(Fail::new(format!("unauthenticated-ended-{}", other.to_lowercase()), describe("the peer was not authenticated and the victim did not end in Failed")));
                }
            }
            if plaintext_app {
                return Err(Fail::new(
                    SIG_PLAIN,
                    describe("an epoch-0 (plaintext) application-data record was handed to the application although the peer was never authenticated"),
                ));
            }
        }
    } else {
        rec.set_nontrivial(fired > 0 || force_server_auth || o.forged.is_some());
        let skip = sh.skip_server_auth && !force_server_auth;
        if skip {
            sh.server_auth_skipped.fetch_add(1, Ordering::Relaxed);
            rec.label("server:authentication-clause-excluded(known)");
        } else if !server_auth(&f, &a) {
            if connected || o.ekm_ok || (!o.app.is_empty() && !plaintext_app) {
                return Err(Fail::new(
                    SIG_SERVER,
                    describe("the server victim has an expected fingerprint and reached Connected (keying material exportable) although the client never presented a Certificate/CertificateVerify: the server flight carries no CertificateRequest"),
                ));
            }
            match o.final_state {
                "Failed" => {}
                "Handshaking" | "New" => {
                    return Err(Fail::timing("unauthenticated-not-failed-by-deadline", describe("client not authenticated and the server victim is not Failed after its handshake deadline")));
                }
                other => {
                    return Err(Fail::new(format!("unauthenticated-ended-{}", other.to_lowercase()), describe("client not authenticated and the server victim did not end in Failed")));
                }
            }
            if plaintext_app {
                return Err(Fail::new(SIG_PLAIN, describe("an epoch-0 application-data record was handed to the application although the client was never authenticated")));
            }
        }
    }
    let _ = fin_note;
    Ok(())
}

fn checker(sh: Arc<Shared>, force_server_auth: bool) -> AsyncCheck<Case> {
    Arc::new(move |c: Case| {
        let sh = sh.clone();
        Box::pin(async move {
            let rec = CaseRec::default();
            let stale = sh.stale.get(c.g as usize % 5).cloned().flatten();
            let res = match run_session(&c, sh.tm, stale).await {
                Ok(o) => judge(&c, &o, &sh, force_server_auth, &rec),
                Err(e) => Err(Fail::new("harness-error", format!("rig failed: {e}"))),
            };
            (rec, res)
        })
    })
}

// ------------------------------------------------------------------ generators

fn ordinal_s() -> impl Strategy<Value = u8> {
    prop_oneof![6 => Just(0u8), 2 => Just(1u8), 1 => Just(2u8)]
}

fn generic_kind() -> impl Strategy<Value = Kind> {
    prop_oneof![
        2 => Just(Kind::Drop),
        2 => (1..=2u8, prop_oneof![Just(0u16), Just(30u16), Just(120u16)]).prop_map(|(copies, gap_ms)| Kind::Dup { copies, gap_ms }),
        2 => (1..=3u8, prop_oneof![Just(40u16), Just(150u16), Just(400u16)]).prop_map(|(count, max_ms)| Kind::HoldBack { count, max_ms }),
        1 => Just(Kind::Omit),
        3 => (any::<u16>(), 0..8u8).prop_map(|(pos, bit)| Kind::Mutate(MutOp::FlipBit { pos, bit })),
        1 => any::<u16>().prop_map(|pos| Kind::Mutate(MutOp::Truncate { pos })),
        1 => (any::<u16>(), prop_oneof![Just(0u8), Just(0xffu8), any::<u8>()]).prop_map(|(pos, val)| Kind::Mutate(MutOp::SetByte { pos, val })),
        4 => (any::<u16>(), 0..8u8).prop_map(|(pos, bit)| Kind::FlipBody { pos, bit }),
    ]
}

const CLIENT_CLASSES: [DClass; 4] = [DClass::ClientHello, DClass::ClientKeyExchange, DClass::ChangeCipherSpec, DClass::Finished];
const SERVER_CLASSES: [DClass; 6] = [
    DClass::ServerHello,
    DClass::Certificate,
    DClass::ServerKeyExchange,
    DClass::ServerHelloDone,
    DClass::ChangeCipherSpec,
    DClass::Finished,
];

fn op_strategy(victim_server: bool) -> BoxedStrategy<Op> {
    let mut targets: Vec<(bool, DClass)> = Vec::new();
    for c in CLIENT_CLASSES {
        targets.push((true, c));
    }
    // the authentication-bearing messages get extra weight
    for c in SERVER_CLASSES.iter().chain(&[DClass::Certificate, DClass::ServerKeyExchange, DClass::ServerKeyExchange]) {
        targets.push((false, *c));
    }
    let generic = (prop::sample::select(targets), ordinal_s(), generic_kind())
        .prop_map(|((from_client, class), ordinal, kind)| Op { from_client, class, ordinal, kind })
        .boxed();
    let omit_renumber = (prop::sample::select(SERVER_FLIGHT.to_vec()))
        .prop_map(|class| Op { from_client: false, class, ordinal: 0, kind: Kind::OmitRenumber })
        .boxed();
    let splice = (prop::sample::select(vec![Splice::Cert, Splice::Ske, Splice::Ske, Splice::Flight]), ordinal_s())
        .prop_map(|(w, ordinal)| Op {
            from_client: false,
            class: match w {
                Splice::Cert => DClass::Certificate,
                Splice::Ske => DClass::ServerKeyExchange,
                Splice::Flight => DClass::ServerHello,
            },
            ordinal,
            kind: Kind::SpliceStale(w),
        })
        .boxed();
    let strip = prop_oneof![
        Just(Op { from_client: true, class: DClass::ClientHello, ordinal: 0, kind: Kind::StripEms }),
        Just(Op { from_client: false, class: DClass::ServerHello, ordinal: 0, kind: Kind::RewriteSrtpProfile }),
    ]
    .boxed();
    let rewrite = (0..96u8)
        .prop_map(|bit| Op { from_client: false, class: DClass::Finished, ordinal: 0, kind: Kind::RewriteFinished { bit } })
        .boxed();
    let toward_victim: Vec<(bool, DClass)> = if victim_server {
        CLIENT_CLASSES.iter().map(|c| (true, *c)).collect()
    } else {
        SERVER_CLASSES.iter().map(|c| (false, *c)).collect()
    };
    let inject = (prop::sample::select(toward_victim), ordinal_s())
        .prop_map(|((from_client, class), ordinal)| Op { from_client, class, ordinal, kind: Kind::InjectPlainAppData })
        .boxed();
    let mut arms: Vec<(u32, BoxedStrategy<Op>)> = vec![(16, generic), (2, omit_renumber), (3, splice), (2, strip)];
    if !victim_server {
        arms.push((2, rewrite));
    }
    arms.push((2, inject));
    prop::strategy::Union::new_weighted(arms).boxed()
}

fn mangle_strategy() -> impl Strategy<Value = MutOp> {
    prop_oneof![
        6 => (any::<u16>(), 0..8u8).prop_map(|(pos, bit)| MutOp::FlipBit { pos, bit }),
        // the tail of a self-signed certificate is its own signature: the key stays intact
        2 => (0xF000u16..=0xFFFF, 0..8u8).prop_map(|(pos, bit)| MutOp::FlipBit { pos, bit }),
        2 => any::<u16>().prop_map(|pos| MutOp::Truncate { pos }),
        1 => (any::<u16>(), any::<u8>()).prop_map(|(pos, val)| MutOp::SetByte { pos, val }),
    ]
}

fn peer_strategy() -> impl Strategy<Value = Peer> {
    prop_oneof![
        4 => Just(Peer::Genuine),
        2 => Just(Peer::AttackerOwn),
        3 => Just(Peer::GenuineChainAttackerKey),
        1 => Just(Peer::EmptyChain),
        2 => any::<bool>().prop_map(|genuine_first| Peer::MixedChain { genuine_first }),
        3 => mangle_strategy().prop_map(Peer::MangledLeaf),
    ]
}

fn fp_strategy() -> impl Strategy<Value = Fp> {
    prop_oneof![
        6 => Just(Fp::Genuine),
        2 => Just(Fp::Attacker),
        1 => Just(Fp::Third),
        3 => Just(Fp::Presented),
        1 => Just(Fp::None),
    ]
}

const FP_FORMS: [FpForm; 9] = [
    FpForm::AlgPrefix,
    FpForm::Lower,
    FpForm::NoColons,
    FpForm::DropOctet,
    FpForm::TrailingGarbage,
    FpForm::TrailingOctet,
    FpForm::Empty,
    FpForm::Whitespace,
    FpForm::Zero,
];

fn fp_form_strategy() -> impl Strategy<Value = FpForm> {
    prop_oneof![7 => Just(FpForm::Canonical), 3 => prop::sample::select(FP_FORMS.to_vec())]
}

const FORGE_LENS: [u8; 6] = [0, 1, 6, 11, 13, 24];

fn forge_strategy(victim_server: bool) -> impl Strategy<Value = Forge> {
    (prop::sample::select(FORGE_LENS.to_vec()), any::<bool>(), prop::bool::weighted(0.6), prop::bool::weighted(0.8)).prop_map(move |(len, correct_prefix, plaintext, drop_genuine)| Forge {
        len,
        // a client peer never publishes keys before the server victim answered: garbage, plaintext
        correct_prefix: correct_prefix && !victim_server,
        plaintext: plaintext || victim_server,
        drop_genuine,
    })
}

/// Forged Finished messages: every length x {correct prefix, garbage} x {plaintext, sealed} with the
/// genuine Finished dropped, alone and combined with one transcript modification; both roles.
fn forge_cases() -> Vec<Case> {
    let strip = Op { from_client: true, class: DClass::ClientHello, ordinal: 0, kind: Kind::StripEms };
    let srtp = Op { from_client: false, class: DClass::ServerHello, ordinal: 0, kind: Kind::RewriteSrtpProfile };
    let mut out = Vec::new();
    let mut g = 0u8;
    for len in FORGE_LENS {
        for correct_prefix in [true, false] {
            for plaintext in [true, false] {
                g = (g + 1) % 5;
                out.push(Case { g, forge: Some(Forge { len, correct_prefix, plaintext, drop_genuine: true }), ..Case::blank() });
            }
        }
        // the attack as described: unsigned field rewritten, then a short plaintext Finished
        for m in [&strip, &srtp] {
            g = (g + 1) % 5;
            out.push(Case { g, ops: vec![m.clone()], forge: Some(Forge { len, correct_prefix: false, plaintext: true, drop_genuine: true }), ..Case::blank() });
        }
        // server victim: the client's Finished dropped, forged one in the clear
        for ops in [vec![], vec![strip.clone()]] {
            g = (g + 1) % 5;
            out.push(Case { victim_server: true, g, ops, forge: Some(Forge { len, correct_prefix: false, plaintext: true, drop_genuine: true }), ..Case::blank() });
        }
        // forged one racing the genuine one
        out.push(Case { g, forge: Some(Forge { len, correct_prefix: true, plaintext: true, drop_genuine: false }), ..Case::blank() });
    }
    out
}

/// Non-canonical / malformed expected-fingerprint strings, derived from the genuine and from
/// another certificate's digest, against a genuine peer and an impostor.
fn fp_form_cases() -> Vec<Case> {
    let mut out = Vec::new();
    for form in FP_FORMS {
        for fp in [Fp::Genuine, Fp::Attacker, Fp::Third] {
            for peer in [Peer::Genuine, Peer::AttackerOwn, Peer::GenuineChainAttackerKey] {
                out.push(Case { g: 1, peer, fp, fp_form: form, ..Case::blank() });
            }
        }
    }
    out
}

/// The victim is told to expect (and is shown, byte for byte) a certificate whose key cannot be
/// used for a ServerKeyExchange check; the presenter signs with its own P-256 key, or the
/// signature is damaged / cut on the way.
fn foreign_leaf_cases() -> Vec<Case> {
    let mut out = Vec::new();
    let mut g = 0u8;
    for leaf in foreign_certs::FOREIGN {
        for fp in [Fp::Genuine, Fp::Presented] {
            for peer in [Peer::Genuine, Peer::GenuineChainAttackerKey, Peer::MixedChain { genuine_first: true }] {
                g = (g + 1) % 5;
                out.push(Case { g, leaf, fp, peer, ..Case::blank() });
            }
        }
        for kind in [Kind::FlipBody { pos: 0xF000, bit: 2 }, Kind::Mutate(MutOp::Truncate { pos: 0xC000 }), Kind::Mutate(MutOp::SetByte { pos: 0xFFFF, val: 0 })] {
            g = (g + 1) % 5;
            out.push(Case { g, leaf, ops: vec![Op { from_client: false, class: DClass::ServerKeyExchange, ordinal: 0, kind }], ..Case::blank() });
        }
    }
    out
}

fn case_strategy() -> impl Strategy<Value = Case> {
    prop::bool::weighted(0.35)
        .prop_flat_map(move |vs| {
            // a client never sends its certificate, so for a server victim the peer variants are
            // indistinguishable: its cases go to the on-path operators
            let peer = if vs { Just(Peer::Genuine).boxed() } else { peer_strategy().boxed() };
            let fp = if vs {
                prop_oneof![12 => Just((Fp::Genuine, FpForm::Canonical)), 1 => Just((Fp::None, FpForm::Canonical))].boxed()
            } else {
                (fp_strategy(), fp_form_strategy()).boxed()
            };
            let nops = if vs { 1..=3usize } else { 0..=3usize };
            let forge = prop_oneof![4 => Just(None), 1 => forge_strategy(vs).prop_map(Some)];
            let leaf = if vs { Just(LeafKind::P256).boxed() } else { prop_oneof![11 => Just(LeafKind::P256), 2 => prop::sample::select(foreign_certs::FOREIGN.to_vec())].boxed() };
            (Just(vs), 0..5u8, peer, fp, prop::collection::vec(op_strategy(vs), nops), forge, leaf)
        })
        .prop_map(|(victim_server, g, mut peer, (mut fp, mut fp_form), mut ops, forge, mut leaf)| {
            if forge.is_some() {
                // a forged Finished only matters to a victim that got as far as holding session
                // keys: genuine peer, matching fingerprint, at most one other operator
                peer = Peer::Genuine;
                fp = Fp::Genuine;
                fp_form = FpForm::Canonical;
                leaf = LeafKind::P256;
                ops.truncate(1);
            }
            Case { victim_server, g, peer, fp, fp_form, ops, forge, leaf }
        })
}

/// Every peer variant x every expected-fingerprint choice for a client victim, no operators.
fn matrix() -> Vec<Case> {
    let peers = vec![
        Peer::Genuine,
        Peer::AttackerOwn,
        Peer::GenuineChainAttackerKey,
        Peer::EmptyChain,
        Peer::MixedChain { genuine_first: true },
        Peer::MixedChain { genuine_first: false },
        Peer::MangledLeaf(MutOp::FlipBit { pos: 0x8000, bit: 0 }),
        Peer::MangledLeaf(MutOp::FlipBit { pos: 0xFFF0, bit: 3 }),
        Peer::MangledLeaf(MutOp::FlipBit { pos: 0x0100, bit: 7 }),
        Peer::MangledLeaf(MutOp::Truncate { pos: 0x8000 }),
        Peer::MangledLeaf(MutOp::Truncate { pos: 0 }),
    ];
    let mut out = Vec::new();
    for g in [0u8, 3] {
        for p in &peers {
            for fp in [Fp::Genuine, Fp::Attacker, Fp::Third, Fp::Presented, Fp::None] {
                out.push(Case { victim_server: false, g, peer: p.clone(), fp, ops: vec![], ..Case::blank() });
            }
        }
    }
    out
}

fn server_probe() -> Vec<Case> {
    let mut out = Vec::new();
    for (peer, fp) in [(Peer::AttackerOwn, Fp::Genuine), (Peer::Genuine, Fp::Genuine), (Peer::AttackerOwn, Fp::Third), (Peer::EmptyChain, Fp::Genuine)] {
        out.push(Case { victim_server: true, g: 0, peer, fp, ops: vec![], ..Case::blank() });
    }
    out
}

fn key_confirmation_cases() -> Vec<Case> {
    let mut out = Vec::new();
    for bit in [0u8, 7, 8, 31, 47, 64, 88, 95] {
        out.push(Case {
            victim_server: false,
            g: 1,
            peer: Peer::Genuine,
            fp: Fp::Genuine,
            ops: vec![Op { from_client: false, class: DClass::Finished, ordinal: 0, kind: Kind::RewriteFinished { bit } }],
            ..Case::blank()
        });
    }
    for g in 0..5u8 {
        for vs in [true, false] {
            out.push(Case {
                victim_server: vs,
                g,
                peer: Peer::Genuine,
                fp: Fp::Genuine,
                ops: vec![Op { from_client: true, class: DClass::ClientHello, ordinal: 0, kind: Kind::StripEms }],
                ..Case::blank()
            });
        }
    }
    out
}

/// Single-bit flips of the first Certificate / ServerKeyExchange datagram towards a client victim.
fn bitflip_cases(all: bool, seed: u64) -> Vec<Case> {
    let leaf_len = genuine(0).certificate[0].len();
    let cert_len = 13 + 12 + 3 + 3 + leaf_len;
    let ske_len = 13 + 12 + 4 + 65 + 4 + 72;
    let mut out = Vec::new();
    let mut n = 0u64;
    for (class, len) in [(DClass::Certificate, cert_len), (DClass::ServerKeyExchange, ske_len)] {
        for byte in 0..len {
            for bit in 0..8u8 {
                n += 1;
                // quick tier: a seed-dependent 1-in-11 residue class (all header bytes always)
                if !all && byte >= 31 && (n.wrapping_add(seed)) % 11 != 0 {
                    continue;
                }
                out.push(Case {
                    victim_server: false,
                    g: 0,
                    peer: Peer::Genuine,
                    fp: Fp::Genuine,
                    ops: vec![Op { from_client: false, class, ordinal: 0, kind: Kind::FlipAt { byte: byte as u16, bit } }],
                    ..Case::blank()
                });
            }
        }
    }
    out
}

// ------------------------------------------------------------------ driver

/// Run an enumerated list of cases concurrently; timing failures must repeat alone (DESIGN 2.6).
pub(crate) fn run_fixed<T>(ctx: &Ctx, rt: &tokio::runtime::Runtime, sub: &str, cases: Vec<T>, conc: usize, chk: AsyncCheck<T>)
where
    T: Clone + Serialize + serde::de::DeserializeOwned + Send + 'static,
{
    let solo = |c: &T| -> (CaseRec, Check) { rt.block_on(chk(c.clone())) };
    let settle = |c: &T, rec: &CaseRec, res: Check| -> Check {
        match res {
            Err(f) if f.timing => {
                let mut last = Err(f);
                for _ in 0..3 {
                    let (_r, again) = solo(c);
                    match again {
                        Ok(()) => {
                            rec.inconclusive_timing();
                            return Ok(());
                        }
                        Err(f2) if !f2.timing => return Err(f2),
                        e => last = e,
                    }
                }
                last
            }
            r => r,
        }
    };
    if ctx.is_replay() {
        if let Some(c) = ctx.replay_case::<T>(sub) {
            let (rec, res) = solo(&c);
            let res = settle(&c, &rec, res);
            let v = serde_json::to_value(&c).unwrap();
            match ctx.record(sub, &v, &rec, &res) {
                Ok(()) => println!("replay: property={} sub={} PASS", ctx.prop, sub),
                Err(f) => ctx.violation(sub, &v, &f),
            }
        }
        return;
    }
    let mut all = ctx.regression_cases::<T>(sub);
    all.extend(cases);
    let results: Vec<(T, (CaseRec, Check))> = rt.block_on(async {
        let sem = Arc::new(tokio::sync::Semaphore::new(conc.max(1)));
        let mut hs_ = Vec::new();
        for c in all {
            let chk = chk.clone();
            let sem = sem.clone();
            hs_.push(tokio::spawn(async move {
                let _p = sem.acquire_owned().await.unwrap();
                let r = chk(c.clone()).await;
                (c, r)
            }));
        }
        let mut out = Vec::new();
        for h in hs_ {
            if let Ok(x) = h.await {
                out.push(x);
            }
        }
        out
    });
    let mut reported: Vec<String> = Vec::new();
    for (c, (rec, res)) in results {
        let res = settle(&c, &rec, res);
        let v = serde_json::to_value(&c).unwrap();
        if let Err(f) = ctx.record(sub, &v, &rec, &res) {
            // one replay per distinct signature is enough
            if !reported.contains(&f.signature) {
                reported.push(f.signature.clone());
                ctx.violation(sub, &v, &f);
            }
        }
    }
}

pub fn run(ctx: &mut Ctx) {
    ctx.level = "fault_enumeration";
    ctx.rule = "two real rustrtc DTLS endpoints over the harness network; the victim (either DTLS role) expects fingerprint F in {genuine identity's, attacker's, an unrelated certificate's, the presented leaf's, none}; the peer is a self-consistent endpoint with an assembled certificate: (i) genuine chain+key, (ii) attacker chain+key, (iii) genuine chain + attacker key, (iv) empty chain, [the genuine identity's certificate itself is ECDSA P-256 made by rustrtc or - leaf kinds - a real RSA-2048 / Ed25519 / ECDSA P-384 / secp256k1 certificate, or a P-256 certificate re-fitted with an unknown-OID / truncated / non-DER SubjectPublicKeyInfo; nobody holds a foreign leaf's key, its presenter signs with the attacker's P-256 key] (v) genuine leaf with a flipped bit / truncation / overwritten byte, (vi) two-certificate chain mixing genuine and attacker certificate with the attacker's key; on top 0-3 on-path operators addressed by sender, message class and transmission ordinal: drop, duplicate, hold back (reorder), omit every transmission, omit + close the message_seq gap, bit flip / truncate / set byte anywhere, bit flip inside the handshake body, splice Certificate / ServerKeyExchange / whole server flight recorded in another session of the genuine identity (record sequence moved forward), extended-master-secret downgrade of the ClientHello, Finished re-sealed with one verify_data bit flipped by a key-knowing relay, extra epoch-0 application-data record. Takeover sub-checks: a harness-implemented active on-path party obtains the genuine server's signed flight for the victim's ClientHello, presents the victim client with a flight mixing genuine messages with a ServerKeyExchange carrying its own P-256 share (garbage / empty / copied-genuine / attacker-key signature), the attacker's Certificate, a second ServerHello with another random, duplicates or omissions, message_seq continued or colliding, and then completes the handshake itself (ring ECDH, own PRF/Finished, AES-GCM records) on every key schedule derivable from its share, else relays to the genuine server; fixed grid of named shapes + proptest insertions. Injection sub-checks: towards a client victim facing an impostor server (attacker's / unrelated certificate, own key; genuine as control) an on-path party injects epoch-0 alert records (close_notify and 7 other descriptions, warning/fatal) in front of any message of the server flight or behind it, and/or runs a HelloVerifyRequest cookie exchange (cookie 1-32 bytes, optionally a second HVR) before relaying the ClientHello; state followed through Closed, keying-material export and application channel probed whatever state is reported. Sub-checks: full peer x F matrix, random cases, single-bit flips of the Certificate and ServerKeyExchange datagrams (quick: all header bits + 1/11 of the rest; thorough: every bit), fixed key-confirmation cases, server-role probe. Non-trivial = the peer is an impostor or F does not name it, or at least one operator fired; distinct by case digest.".into();
    ctx.assumptions = vec![
        "oracle inputs are the datagrams recorded at the entrance of each endpoint's DTLS layer plus the victim's published state/keys; the victim's own decisions are never trusted".into(),
        "'proved possession of the corresponding private key' for a client victim = a ServerKeyExchange delivered in this handshake whose ECDSA signature verifies (ring) under the P-256 key found in the leaf that hashes to F, over a ClientHello random the victim sent, a ServerHello random delivered to it and the ECDH parameters; plus key confirmation: a delivered Finished whose verify_data matches a transcript the victim can have seen (RFC 5246 7.4.9)".into(),
        "for a server victim the only way to meet the statement is a client Certificate + CertificateVerify; rustrtc implements neither (known finding), so with that finding recorded only key confirmation and key agreement are asserted for server victims".into(),
        "with no expected fingerprint nothing is asserted".into(),
        "takeover: the share behind the victim's keys is identified by key equality - the victim's published master secret equals one the on-path party derived from its own ECDH private key (or the party's AES-GCM application record is delivered); Connected / EKM / data on such keys is a violation unless a ServerKeyExchange carrying that share and signed by the pinned leaf's key over this session's randoms was delivered".into(),
        "'ends in Failed' is observed until the victim's handshake deadline (hook H2: 50 ms retransmit, 2.5 s deadline) plus 2 s; still-Handshaking counts only if it repeats in 3 solo re-runs (DESIGN 2.6)".into(),
        "plaintext (epoch-0) application data reaching the application while the peer is unauthenticated is reported under its own signature; the same defect with an authenticated peer is property C03's".into(),
    ];
    let tm = Timing {
        retransmit: Duration::from_millis(50),
        deadline: Duration::from_millis(2500),
        slack: Duration::from_millis(2000),
    };
    let rt = tokio::runtime::Builder::new_multi_thread().worker_threads(16).enable_all().build().unwrap();
    // recordings of "a different session" for the splice operators, one per identity
    let stale: Vec<Option<Arc<Stale>>> = rt.block_on(async {
        let mut v = Vec::new();
        for g in 0..5u8 {
            v.push(record_stale(g, tm).await.map(Arc::new));
        }
        v
    });
    ctx.set_extra("stale_recordings", json!(stale.iter().filter(|s| s.is_some()).count()));
    let known_server = ctx.is_known(SIG_SERVER);
    let sh = Arc::new(Shared { skip_server_auth: known_server, server_auth_skipped: AtomicU64::new(0), stale, tm });
    let conc = 64;

    // 1. the server-role question, asked directly (minimal cases; clause always on)
    run_fixed(ctx, &rt, "server-auth-probe", server_probe(), 4, checker(sh.clone(), true));
    // 2. peer x fingerprint matrix, client victim, quiet path
    run_fixed(ctx, &rt, "matrix", matrix(), conc, checker(sh.clone(), false));
    // 3. key confirmation
    run_fixed(ctx, &rt, "key-confirmation", key_confirmation_cases(), conc, checker(sh.clone(), false));
    // 3b. forged Finished with wrong-length verify_data
    run_fixed(ctx, &rt, "finished-forge", forge_cases(), conc, checker(sh.clone(), false));
    // 3c. non-canonical / malformed expected-fingerprint strings
    run_fixed(ctx, &rt, "fingerprint-forms", fp_form_cases(), conc, checker(sh.clone(), false));
    // 3d. expected + presented leaf of a kind whose key cannot vouch for a ServerKeyExchange
    run_fixed(ctx, &rt, "foreign-leaf", foreign_leaf_cases(), conc, checker(sh.clone(), false));
    // 4. plaintext application data before authentication, asked directly
    let plain_probe = vec![
        Case { victim_server: false, g: 2, peer: Peer::AttackerOwn, fp: Fp::Genuine, ops: vec![Op { from_client: false, class: DClass::ServerHello, ordinal: 0, kind: Kind::InjectPlainAppData }], ..Case::blank() },
        Case { victim_server: false, g: 2, peer: Peer::GenuineChainAttackerKey, fp: Fp::Genuine, ops: vec![Op { from_client: false, class: DClass::Certificate, ordinal: 0, kind: Kind::InjectPlainAppData }], ..Case::blank() },
    ];
    run_fixed(ctx, &rt, "plaintext-probe", plain_probe, 2, checker(sh.clone(), false));
    // 5. single-bit flips of the Certificate and ServerKeyExchange datagrams
    if !ctx.is_replay() || ctx.replay_case::<Case>("bitflip").is_some() {
        let flips = bitflip_cases(ctx.thorough(), ctx.seed);
        ctx.set_extra("bitflip_cases", json!(flips.len()));
        ctx.set_extra("bitflip_exhaustive", json!(ctx.thorough()));
        run_fixed(ctx, &rt, "bitflip", flips, conc, checker(sh.clone(), false));
    }
    // 6. random cases
    let n = ctx.scale(1000usize, 12_000usize);
    ctx.sub_async(&rt, "random", n, conc, case_strategy(), checker(sh.clone(), false));

    // 7. active on-path party that finishes the handshake itself (c02_takeover.rs)
    super::c02_takeover::run_subs(ctx, &rt, tm, conc);
    // 8. unauthenticated messages injected before the Certificate: alerts, HelloVerifyRequest (c02_inject.rs)
    super::c02_inject::run_subs(ctx, &rt, tm, conc);

    let skipped = sh.server_auth_skipped.load(Ordering::Relaxed);
    if skipped > 0 {
        ctx.note_excluded(SIG_SERVER, skipped);
    }
    ctx.set_exhaustive(false);
    rt.shutdown_timeout(Duration::from_secs(2));
}
