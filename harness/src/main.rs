//! rtcverif: property-based verification harness for restsend/rustrtc.
//! Usage: rtcverif run <Cxx> --tier quick|thorough [--replay <file>]

pub mod engine;
pub mod net;
pub mod props;
pub mod refimpl;

use engine::{Ctx, Tier};

/// C07: counting allocator (thread-local live / peak byte counters, see props/c07/alloc.rs)
#[global_allocator]
static GLOBAL: props::c07::alloc::Counting = props::c07::alloc::Counting;

fn main() {
    let args: Vec<String> = std::env::args().collect();
    if args.len() < 3 || args[1] != "run" {
        eprintln!("usage: rtcverif run <Cxx> --tier quick|thorough [--replay <file>]");
        std::process::exit(2);
    }
    let prop = args[2].clone();
    let mut tier = match std::env::var("VERIF_TIER").as_deref() {
        Ok("thorough") => Tier::Thorough,
        _ => Tier::Quick,
    };
    let mut replay: Option<std::path::PathBuf> = None;
    let mut i = 3;
    while i < args.len() {
        match args[i].as_str() {
            "--tier" => {
                i += 1;
                tier = match args.get(i).map(|s| s.as_str()) {
                    Some("thorough") => Tier::Thorough,
                    Some("quick") => Tier::Quick,
                    _ => {
                        eprintln!("bad tier");
                        std::process::exit(2)
                    }
                };
            }
            "--replay" => {
                i += 1;
                replay = args.get(i).map(|s| s.into());
            }
            other => {
                eprintln!("unknown argument {other}");
                std::process::exit(2);
            }
        }
        i += 1;
    }
    let seed: u64 = std::env::var("VERIF_SEED")
        .ok()
        .and_then(|s| s.parse::<i64>().ok())
        .map(|v| v as u64)
        .unwrap_or(1);
    if std::env::var("VERIF_TRACE").is_ok() {
        // developer aid: VERIF_TRACE=1 RUST_LOG=rustrtc=debug
        let _ = tracing_subscriber::fmt()
            .with_env_filter(tracing_subscriber::EnvFilter::from_default_env())
            .with_writer(std::io::stderr)
            .try_init();
    }
    engine::panics::install();
    let Some((id, f)) = props::TABLE.iter().find(|(id, _)| *id == prop) else {
        eprintln!("unknown property {prop}");
        std::process::exit(2);
    };
    let ctx = Ctx::new(id, tier, seed, replay.as_deref());
    let mut ctx = ctx;
    f(&mut ctx);
    std::process::exit(ctx.finish());
}
