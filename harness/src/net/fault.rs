//! Fault plans and the pump that applies them between a packet source and a sink.

use bytes::Bytes;
use futures::future::BoxFuture;
use parking_lot::Mutex;
use serde::{Deserialize, Serialize};
use std::collections::HashMap;
use std::hash::Hash;
use std::sync::Arc;
use std::time::{Duration, Instant};

#[derive(Clone, Copy, Debug, PartialEq, Eq, Hash, Serialize, Deserialize, PartialOrd, Ord)]
pub enum Side {
    A,
    B,
}

impl Side {
    pub fn other(self) -> Side {
        match self {
            Side::A => Side::B,
            Side::B => Side::A,
        }
    }
}

#[derive(Clone, Debug, PartialEq, Eq, Serialize, Deserialize)]
pub enum Action {
    Drop,
    /// deliver the original and `copies` extra copies, `gap_ms` apart
    Dup { copies: u8, gap_ms: u16 },
    Delay { ms: u16 },
    /// hold until `count` later packets from the same sender have been delivered (or `max_ms` passed)
    HoldBack { count: u8, max_ms: u16 },
    /// deliver a modified copy instead of the original
    Mutate(MutOp),
    /// layer-specific transformation (index into the layer's `custom` table); may yield 0..n packets
    Custom(u8),
}

#[derive(Clone, Debug, PartialEq, Eq, Serialize, Deserialize)]
pub enum MutOp {
    /// flip bit `bit` of the byte at relative position pos/65536 of the packet
    FlipBit { pos: u16, bit: u8 },
    /// keep only the first pos/65536 of the packet
    Truncate { pos: u16 },
    SetByte { pos: u16, val: u8 },
}

impl MutOp {
    pub fn apply(&self, b: &[u8]) -> Vec<u8> {
        let mut v = b.to_vec();
        if v.is_empty() {
            return v;
        }
        let at = |pos: u16| ((pos as usize) * v.len()) >> 16;
        match *self {
            MutOp::FlipBit { pos, bit } => {
                let i = at(pos);
                v[i] ^= 1 << (bit & 7);
            }
            MutOp::Truncate { pos } => {
                let i = at(pos);
                v.truncate(i);
            }
            MutOp::SetByte { pos, val } => {
                let i = at(pos);
                v[i] = val;
            }
        }
        v
    }
}

pub type CustomFn = Arc<dyn Fn(u8, &Bytes) -> Vec<Bytes> + Send + Sync>;
/// Delivery-side replacement: called for every packet from `Side` after it was captured and matched
/// against the plan; `Some(bytes)` is delivered (and traced as Delivered) instead of the original.
pub type RewriteFn = Arc<dyn Fn(Side, &Bytes) -> Option<Bytes> + Send + Sync>;
/// Observer called with (sender side, bytes) right before each delivery.
pub type ObserveFn = Arc<dyn Fn(Side, &Bytes) + Send + Sync>;

#[derive(Clone, Debug, Serialize, Deserialize)]
pub struct Rule<C> {
    pub from: Side,
    pub class: C,
    /// n-th packet (0-based) of that class from that side
    pub ordinal: u16,
    pub action: Action,
}

#[derive(Clone, Copy, Debug, PartialEq, Eq)]
pub enum Phase {
    /// the sender put it on the wire
    Captured,
    /// the harness handed it to the receiver
    Delivered,
}

#[derive(Clone, Debug)]
pub struct Ev<C, I> {
    pub t_us: u64,
    pub from: Side,
    pub phase: Phase,
    pub class: C,
    pub len: usize,
    pub action: Option<Action>,
    pub info: Arc<I>,
}

pub struct FaultLayer<C, I> {
    pub rules: Vec<Rule<C>>,
    pub fired: Vec<bool>,
    counts: HashMap<(Side, C), u16>,
    pub trace: Vec<Ev<C, I>>,
    pub t0: Instant,
    pub last_fault: Option<Instant>,
    /// record Captured/Delivered events
    pub keep_trace: bool,
    pub custom: Option<CustomFn>,
    /// optional delivery-side rewrite of every packet (None = off; see `RewriteFn`)
    pub rewrite: Option<RewriteFn>,
    /// optional observer of every delivery
    pub on_deliver: Option<ObserveFn>,
}

impl<C: Copy + Eq + Hash, I> FaultLayer<C, I> {
    pub fn new(rules: Vec<Rule<C>>, keep_trace: bool) -> Self {
        let n = rules.len();
        Self {
            rules,
            fired: vec![false; n],
            counts: HashMap::new(),
            trace: Vec::new(),
            t0: Instant::now(),
            last_fault: None,
            keep_trace,
            custom: None,
            rewrite: None,
            on_deliver: None,
        }
    }

    fn now_us(&self) -> u64 {
        self.t0.elapsed().as_micros() as u64
    }

    fn decide(&mut self, from: Side, class: C, len: usize, info: &Arc<I>) -> Option<Action> {
        let n = self.counts.entry((from, class)).or_insert(0);
        let ord = *n;
        *n = n.saturating_add(1);
        let mut act = None;
        for (i, r) in self.rules.iter().enumerate() {
            if !self.fired[i] && r.from == from && r.class == class && r.ordinal == ord {
                self.fired[i] = true;
                act = Some(r.action.clone());
                self.last_fault = Some(Instant::now());
                break;
            }
        }
        if self.keep_trace {
            let t = self.now_us();
            self.trace.push(Ev {
                t_us: t,
                from,
                phase: Phase::Captured,
                class,
                len,
                action: act.clone(),
                info: info.clone(),
            });
        }
        act
    }

    fn delivered(&mut self, from: Side, class: C, len: usize, info: &Arc<I>) {
        // a delayed/duplicated delivery is itself the tail of a fault
        if self.keep_trace {
            let t = self.now_us();
            self.trace.push(Ev {
                t_us: t,
                from,
                phase: Phase::Delivered,
                class,
                len,
                action: None,
                info: info.clone(),
            });
        }
    }

    pub fn fired_count(&self) -> usize {
        self.fired.iter().filter(|f| **f).count()
    }

    pub fn count_of(&self, from: Side, class: C) -> u16 {
        self.counts.get(&(from, class)).copied().unwrap_or(0)
    }
}

pub type Deliver = Arc<dyn Fn(Bytes) -> BoxFuture<'static, ()> + Send + Sync>;
pub type Classify<C, I> = Arc<dyn Fn(&[u8]) -> (C, I) + Send + Sync>;

struct Held<C, I> {
    remaining: u8,
    deadline: Instant,
    bytes: Bytes,
    class: C,
    info: Arc<I>,
}

/// One direction of a fault layer: packets from `from` arrive on `rx`, are classified, matched
/// against the plan and handed to `deliver` (immediately, later, several times, or never).
pub async fn pump<C, I>(
    mut rx: tokio::sync::mpsc::UnboundedReceiver<Bytes>,
    layer: Arc<Mutex<FaultLayer<C, I>>>,
    from: Side,
    classify: Classify<C, I>,
    deliver: Deliver,
) where
    C: Copy + Eq + Hash + Send + Sync + 'static,
    I: Send + Sync + 'static,
{
    // every delivery passes the optional observer first
    let deliver: Deliver = {
        let (l, d) = (layer.clone(), deliver);
        Arc::new(move |b: Bytes| {
            let obs = l.lock().on_deliver.clone();
            if let Some(f) = obs {
                f(from, &b);
            }
            d(b)
        })
    };
    let mut held: Vec<Held<C, I>> = Vec::new();
    let mut tick = tokio::time::interval(Duration::from_millis(4));
    tick.set_missed_tick_behavior(tokio::time::MissedTickBehavior::Skip);
    loop {
        tokio::select! {
            pkt = rx.recv() => {
                let Some(pkt) = pkt else { break };
                let (class, info) = classify(&pkt);
                let info = Arc::new(info);
                let action = layer.lock().decide(from, class, pkt.len(), &info);
                // optional delivery-side replacement (the capture above keeps the genuine packet)
                let rw = layer.lock().rewrite.clone();
                let (pkt, info) = match rw.and_then(|f| f(from, &pkt)) {
                    Some(np) => {
                        let (_c, i) = classify(&np);
                        (np, Arc::new(i))
                    }
                    None => (pkt, info),
                };
                let prior = held.len();
                match action {
                    None => {
                        layer.lock().delivered(from, class, pkt.len(), &info);
                        deliver(pkt).await;
                    }
                    Some(Action::Drop) => {}
                    Some(Action::Dup { copies, gap_ms }) => {
                        layer.lock().delivered(from, class, pkt.len(), &info);
                        deliver(pkt.clone()).await;
                        for i in 1..=copies as u64 {
                            if gap_ms == 0 {
                                layer.lock().delivered(from, class, pkt.len(), &info);
                                deliver(pkt.clone()).await;
                            } else {
                                let (l, d, p, inf) = (layer.clone(), deliver.clone(), pkt.clone(), info.clone());
                                let wait = Duration::from_millis(gap_ms as u64 * i);
                                { layer.lock().last_fault = Some(Instant::now() + wait); }
                                tokio::spawn(async move {
                                    tokio::time::sleep(wait).await;
                                    { let mut g = l.lock(); g.delivered(from, class, p.len(), &inf); }
                                    d(p).await;
                                });
                            }
                        }
                    }
                    Some(Action::Delay { ms }) => {
                        let (l, d, p, inf) = (layer.clone(), deliver.clone(), pkt.clone(), info.clone());
                        let wait = Duration::from_millis(ms as u64);
                        { layer.lock().last_fault = Some(Instant::now() + wait); }
                        tokio::spawn(async move {
                            tokio::time::sleep(wait).await;
                            { let mut g = l.lock(); g.delivered(from, class, p.len(), &inf); }
                            d(p).await;
                        });
                    }
                    Some(Action::Mutate(op)) => {
                        let m = Bytes::from(op.apply(&pkt));
                        if !m.is_empty() {
                            layer.lock().delivered(from, class, m.len(), &info);
                            deliver(m).await;
                        }
                    }
                    Some(Action::Custom(k)) => {
                        let f = layer.lock().custom.clone();
                        let outs = match f { Some(f) => f(k, &pkt), None => vec![pkt.clone()] };
                        for o in outs {
                            layer.lock().delivered(from, class, o.len(), &info);
                            deliver(o).await;
                        }
                    }
                    Some(Action::HoldBack { count, max_ms }) => {
                        let deadline = Instant::now() + Duration::from_millis(max_ms as u64);
                        { layer.lock().last_fault = Some(deadline); }
                        held.push(Held { remaining: count.max(1), deadline, bytes: pkt, class, info });
                    }
                }
                // packets held before this one have now been overtaken once more
                let mut i = 0;
                let mut seen = 0;
                while i < held.len() && seen < prior {
                    seen += 1;
                    held[i].remaining = held[i].remaining.saturating_sub(1);
                    if held[i].remaining == 0 {
                        let h = held.remove(i);
                        { let mut g = layer.lock(); g.delivered(from, h.class, h.bytes.len(), &h.info); g.last_fault = Some(Instant::now()); }
                        deliver(h.bytes).await;
                    } else {
                        i += 1;
                    }
                }
            }
            _ = tick.tick() => {
                let now = Instant::now();
                let mut i = 0;
                while i < held.len() {
                    if held[i].deadline <= now {
                        let h = held.remove(i);
                        { let mut g = layer.lock(); g.delivered(from, h.class, h.bytes.len(), &h.info); g.last_fault = Some(Instant::now()); }
                        deliver(h.bytes).await;
                    } else {
                        i += 1;
                    }
                }
            }
        }
    }
}
