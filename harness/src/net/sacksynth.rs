//! Peer-independent, truthful SACKs: the harness replaces the genuine receiver's SACK chunk by one it
//! builds itself from the DATA TSNs it has delivered to that receiver (cumulative TSN + ALL gap-ack
//! blocks, no cap), optionally in unusual but legal forms (a contiguous run split into adjacent
//! blocks, a block repeating an earlier one, duplicate-TSN entries for TSNs delivered twice).
//! a_rwnd, ports, verification tag and the genuine duplicate-TSN list are kept.
//!
//! Truthfulness: a TSN is reported only if the genuine SACK reports it or the harness has handed a
//! DATA chunk with that TSN to the receiver's input queue (FIFO, never dropped by the receiver)
//! before the SACK was captured; the cumulative TSN starts from the genuine one (which already
//! includes FORWARD-TSN skips) and is advanced over delivered TSNs only.

use super::fault::Side;
use super::wire::{self, CT_DATA, CT_SACK};
use bytes::Bytes;
use serde::{Deserialize, Serialize};
use std::collections::HashMap;

#[derive(Clone, Copy, Debug, Default, PartialEq, Eq, Serialize, Deserialize)]
pub struct SackForm {
    /// 0 = one block per contiguous run; k > 0 = runs are cut into adjacent blocks of k TSNs
    pub split: u8,
    /// append a block repeating an earlier one
    pub repeat: bool,
    /// report TSNs the harness delivered more than once as duplicates (at most once each)
    pub extra_dups: bool,
}

#[derive(Clone, Debug, Default)]
pub struct SynthStats {
    pub sacks_rewritten: u64,
    pub sacks_over_16_blocks: u64,
    pub max_blocks: usize,
    /// largest number of distinct holes (contiguous missing ranges below the highest reported TSN)
    pub max_holes: usize,
    pub truncated: u64,
}

/// a SACK chunk may carry as many blocks as fit the packet: 12 + 16 + 4n <= 1200
pub const MAX_BLOCKS: usize = 270;

pub struct SackSynth {
    pub form: SackForm,
    /// per receiving side (A, B): TSN -> number of deliveries
    delivered: [HashMap<u32, u32>; 2],
    dup_reported: [std::collections::HashSet<u32>; 2],
    pub stats: SynthStats,
}

fn ix(s: Side) -> usize {
    match s {
        Side::A => 0,
        Side::B => 1,
    }
}

impl SackSynth {
    pub fn new(form: SackForm) -> Self {
        Self {
            form,
            delivered: [HashMap::new(), HashMap::new()],
            dup_reported: [Default::default(), Default::default()],
            stats: SynthStats::default(),
        }
    }

    /// a packet from `from` is about to be handed to the other side
    pub fn on_deliver(&mut self, from: Side, b: &[u8]) {
        let Some(p) = wire::sctp_parse(b) else { return };
        if !p.checksum_ok {
            return;
        }
        for c in &p.chunks {
            if c.ctype == CT_DATA {
                if let Some(d) = c.as_data() {
                    *self.delivered[ix(from.other())].entry(d.tsn).or_insert(0) += 1;
                }
            }
        }
    }

    /// a packet from `from` was captured: replace its SACK chunk(s)
    pub fn rewrite(&mut self, from: Side, b: &[u8]) -> Option<Bytes> {
        let p = wire::sctp_parse(b)?;
        if !p.checksum_ok || !p.well_formed || !p.chunks.iter().any(|c| c.ctype == CT_SACK) {
            return None;
        }
        let mut chunks: Vec<(u8, u8, Vec<u8>)> = Vec::new();
        // room left for gap-ack blocks next to the other chunks of the packet
        let other: usize = p.chunks.iter().filter(|c| c.ctype != CT_SACK).map(|c| (4 + c.value.len() + 3) & !3).sum();
        let nsack = p.chunks.iter().filter(|c| c.ctype == CT_SACK).count().max(1);
        let room = 1200usize.saturating_sub(12 + other) / nsack;
        let max_blocks = (room.saturating_sub(16 + 4 * 16) / 4).min(MAX_BLOCKS);
        for c in &p.chunks {
            if let Some(k) = c.as_sack() {
                chunks.push((c.ctype, c.flags, self.build(from, &k, max_blocks)));
            } else {
                chunks.push((c.ctype, c.flags, c.value.clone()));
            }
        }
        let out = wire::sctp_build(p.src_port, p.dst_port, p.vtag, &chunks);
        if out.len() > 1200 {
            return None;
        }
        self.stats.sacks_rewritten += 1;
        Some(Bytes::from(out))
    }

    fn build(&mut self, receiver: Side, genuine: &wire::SackChunk, max_blocks: usize) -> Vec<u8> {
        let r = ix(receiver);
        let set = &mut self.delivered[r];
        // forget what the genuine cumulative TSN already covers
        set.retain(|t, _| (t.wrapping_sub(genuine.cum_tsn) as i32) > 0);
        let mut cum = genuine.cum_tsn;
        while set.contains_key(&cum.wrapping_add(1)) {
            cum = cum.wrapping_add(1);
        }
        set.retain(|t, _| (t.wrapping_sub(cum) as i32) > 0);
        // offsets of everything received above the cumulative TSN
        let mut offs: Vec<u32> = set.keys().map(|t| t.wrapping_sub(cum)).filter(|d| *d >= 2 && *d <= 65535).collect();
        for (a, b) in &genuine.gaps {
            for o in *a as u32..=*b as u32 {
                let d = genuine.cum_tsn.wrapping_add(o).wrapping_sub(cum);
                if d >= 2 && d <= 65535 {
                    offs.push(d);
                }
            }
        }
        offs.sort_unstable();
        offs.dedup();
        let mut runs: Vec<(u32, u32)> = Vec::new();
        for d in offs {
            match runs.last_mut() {
                Some((_, e)) if *e + 1 == d => *e = d,
                _ => runs.push((d, d)),
            }
        }
        self.stats.max_holes = self.stats.max_holes.max(runs.len());
        let mut blocks: Vec<(u16, u16)> = Vec::new();
        for (a, b) in &runs {
            if self.form.split == 0 {
                blocks.push((*a as u16, *b as u16));
            } else {
                let k = self.form.split as u32;
                let mut s = *a;
                while s <= *b {
                    let e = (s + k - 1).min(*b);
                    blocks.push((s as u16, e as u16));
                    s = e + 1;
                }
            }
        }
        if blocks.len() > max_blocks {
            blocks.truncate(max_blocks);
            self.stats.truncated += 1;
        }
        if self.form.repeat && !blocks.is_empty() && blocks.len() < max_blocks {
            let again = blocks[blocks.len() / 2];
            blocks.push(again);
        }
        let mut dups = genuine.dups.clone();
        if self.form.extra_dups {
            let mut extra: Vec<u32> = self.delivered[r].iter().filter(|(t, n)| **n >= 2 && !self.dup_reported[r].contains(*t)).map(|(t, _)| *t).collect();
            extra.sort_unstable();
            for t in extra.into_iter().take(4) {
                self.dup_reported[r].insert(t);
                dups.push(t);
            }
        }
        dups.truncate(16);
        self.stats.max_blocks = self.stats.max_blocks.max(blocks.len());
        if blocks.len() > 16 {
            self.stats.sacks_over_16_blocks += 1;
        }
        let mut v = Vec::with_capacity(12 + 4 * (blocks.len() + dups.len()));
        v.extend_from_slice(&cum.to_be_bytes());
        v.extend_from_slice(&genuine.a_rwnd.to_be_bytes());
        v.extend_from_slice(&(blocks.len() as u16).to_be_bytes());
        v.extend_from_slice(&(dups.len() as u16).to_be_bytes());
        for (a, b) in blocks {
            v.extend_from_slice(&a.to_be_bytes());
            v.extend_from_slice(&b.to_be_bytes());
        }
        for t in dups {
            v.extend_from_slice(&t.to_be_bytes());
        }
        v
    }
}
