//! Fabricated association-setup chunks for the SCTP-level fault layer: a second INIT that differs
//! from the genuine one (another initiate tag, optionally another initial TSN / a_rwnd) presented to
//! the server before or after the genuine INIT - a stale INIT of an earlier attempt, a restarted
//! client, an off-path INIT - and, as the mirror image, a second INIT-ACK with another tag and a
//! useless cookie presented to the client after the genuine one. Used through `Action::Custom`.

use super::wire;
use bytes::Bytes;
use serde::{Deserialize, Serialize};

/// `Custom(CUSTOM_INIT)` on the client's INIT, `Custom(CUSTOM_INIT_ACK)` on the server's INIT-ACKs
pub const CUSTOM_INIT: u8 = 40;
pub const CUSTOM_INIT_ACK: u8 = 41;

#[derive(Clone, Copy, Debug, PartialEq, Eq, Serialize, Deserialize)]
pub struct SetupForgery {
    /// initiate tag of the fabricated INIT
    pub tag: u32,
    /// added to the genuine initial TSN (0 = same)
    pub tsn_delta: u32,
    /// a_rwnd of the fabricated INIT (None = same)
    pub rwnd: Option<u32>,
    /// the fabricated INIT reaches the server before (true) or after (false) the genuine one
    pub before: bool,
    /// the INIT-ACK answering the fabricated INIT is swallowed (true) or delivered to the client (false)
    pub swallow: bool,
    /// Some(tag) = a fabricated INIT-ACK with this initiate tag and a spoiled cookie follows the genuine one
    pub mirror: Option<u32>,
}

fn rebuild(p: &wire::SctpPacket, chunks: Vec<(u8, u8, Vec<u8>)>) -> Bytes {
    Bytes::from(wire::sctp_build(p.src_port, p.dst_port, p.vtag, &chunks))
}

impl SetupForgery {
    /// the transformation behind `Custom(k)`
    pub fn apply(&self, k: u8, b: &Bytes) -> Vec<Bytes> {
        let Some(p) = wire::sctp_parse(b) else { return vec![b.clone()] };
        if !p.checksum_ok || !p.well_formed {
            return vec![b.clone()];
        }
        match k {
            CUSTOM_INIT => {
                let mut chunks = Vec::new();
                let mut found = false;
                for c in &p.chunks {
                    let mut v = c.value.clone();
                    if c.ctype == wire::CT_INIT && v.len() >= 16 {
                        found = true;
                        v[0..4].copy_from_slice(&self.tag.to_be_bytes());
                        if let Some(w) = self.rwnd {
                            v[4..8].copy_from_slice(&w.to_be_bytes());
                        }
                        let tsn = u32::from_be_bytes([v[12], v[13], v[14], v[15]]).wrapping_add(self.tsn_delta);
                        v[12..16].copy_from_slice(&tsn.to_be_bytes());
                    }
                    chunks.push((c.ctype, c.flags, v));
                }
                if !found {
                    return vec![b.clone()];
                }
                let fab = rebuild(&p, chunks);
                if self.before { vec![fab, b.clone()] } else { vec![b.clone(), fab] }
            }
            CUSTOM_INIT_ACK => {
                if p.vtag == self.tag {
                    // the answer to the fabricated INIT
                    return if self.swallow { vec![] } else { vec![b.clone()] };
                }
                let Some(t) = self.mirror else { return vec![b.clone()] };
                let mut chunks = Vec::new();
                for c in &p.chunks {
                    let mut v = c.value.clone();
                    if c.ctype == wire::CT_INIT_ACK && v.len() >= 20 {
                        v[0..4].copy_from_slice(&t.to_be_bytes());
                        // spoil the state cookie (last parameter byte that is not padding)
                        let n = v.len();
                        v[n - 5] ^= 0x5a;
                    }
                    chunks.push((c.ctype, c.flags, v));
                }
                vec![b.clone(), rebuild(&p, chunks)]
            }
            _ => vec![b.clone()],
        }
    }
}
