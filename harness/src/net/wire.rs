//! E3: independent wire readers (harness code, not rustrtc's): DTLS record splitter,
//! AES-128-GCM record open/seal, SCTP packet walker, table-driven CRC32c.

use aes_gcm::aead::{Aead, KeyInit, Payload};
use aes_gcm::{Aes128Gcm, Nonce};
use serde::{Deserialize, Serialize};

// ---------------------------------------------------------------- CRC32c

fn crc32c_table() -> &'static [u32; 256] {
    static T: std::sync::OnceLock<[u32; 256]> = std::sync::OnceLock::new();
    T.get_or_init(|| {
        let mut t = [0u32; 256];
        for i in 0..256u32 {
            let mut c = i;
            for _ in 0..8 {
                c = if c & 1 != 0 { (c >> 1) ^ 0x82F63B78 } else { c >> 1 };
            }
            t[i as usize] = c;
        }
        t
    })
}

/// CRC-32C (Castagnoli), reflected, init/xorout 0xFFFFFFFF. crc32c(b"123456789") == 0xE3069283.
pub fn crc32c(data: &[u8]) -> u32 {
    let t = crc32c_table();
    let mut c = 0xFFFF_FFFFu32;
    for b in data {
        c = t[((c ^ *b as u32) & 0xFF) as usize] ^ (c >> 8);
    }
    c ^ 0xFFFF_FFFF
}

// ---------------------------------------------------------------- DTLS

#[derive(Clone, Debug, PartialEq, Eq)]
pub struct DtlsRec {
    pub content_type: u8,
    pub version: (u8, u8),
    pub epoch: u16,
    pub seq: u64,
    pub body: Vec<u8>,
    /// offset of this record in the datagram
    pub offset: usize,
}

/// Split a datagram into DTLS records (stops at the first malformed one).
pub fn dtls_records(d: &[u8]) -> Vec<DtlsRec> {
    let mut out = Vec::new();
    let mut o = 0;
    while d.len() >= o + 13 {
        let len = u16::from_be_bytes([d[o + 11], d[o + 12]]) as usize;
        if d.len() < o + 13 + len {
            break;
        }
        let mut seq = 0u64;
        for b in &d[o + 5..o + 11] {
            seq = (seq << 8) | *b as u64;
        }
        out.push(DtlsRec {
            content_type: d[o],
            version: (d[o + 1], d[o + 2]),
            epoch: u16::from_be_bytes([d[o + 3], d[o + 4]]),
            seq,
            body: d[o + 13..o + 13 + len].to_vec(),
            offset: o,
        });
        o += 13 + len;
    }
    out
}

pub fn dtls_record_bytes(ct: u8, epoch: u16, seq: u64, body: &[u8]) -> Vec<u8> {
    let mut v = vec![ct, 0xFE, 0xFD];
    v.extend_from_slice(&epoch.to_be_bytes());
    v.extend_from_slice(&seq.to_be_bytes()[2..8]);
    v.extend_from_slice(&(body.len() as u16).to_be_bytes());
    v.extend_from_slice(body);
    v
}

#[derive(Clone, Debug)]
pub struct HsHeader {
    pub msg_type: u8,
    pub length: u32,
    pub message_seq: u16,
    pub frag_off: u32,
    pub frag_len: u32,
}

pub fn hs_header(body: &[u8]) -> Option<HsHeader> {
    if body.len() < 12 {
        return None;
    }
    let u24 = |b: &[u8]| ((b[0] as u32) << 16) | ((b[1] as u32) << 8) | b[2] as u32;
    Some(HsHeader {
        msg_type: body[0],
        length: u24(&body[1..4]),
        message_seq: u16::from_be_bytes([body[4], body[5]]),
        frag_off: u24(&body[6..9]),
        frag_len: u24(&body[9..12]),
    })
}

/// Coarse class of a DTLS datagram (its first record), used to address fault rules.
#[derive(Clone, Copy, Debug, PartialEq, Eq, Hash, Serialize, Deserialize, PartialOrd, Ord)]
pub enum DClass {
    ClientHello,
    HelloVerifyRequest,
    ServerHello,
    Certificate,
    ServerKeyExchange,
    ServerHelloDone,
    ClientKeyExchange,
    ChangeCipherSpec,
    /// epoch >= 1 handshake record (Finished)
    Finished,
    AppData,
    Alert,
    OtherHandshake,
    Other,
}

pub fn dtls_class(d: &[u8]) -> DClass {
    let recs = dtls_records(d);
    let Some(r) = recs.first() else {
        return DClass::Other;
    };
    match r.content_type {
        20 => DClass::ChangeCipherSpec,
        21 => DClass::Alert,
        23 => DClass::AppData,
        22 => {
            if r.epoch > 0 {
                return DClass::Finished;
            }
            match hs_header(&r.body).map(|h| h.msg_type) {
                Some(1) => DClass::ClientHello,
                Some(3) => DClass::HelloVerifyRequest,
                Some(2) => DClass::ServerHello,
                Some(11) => DClass::Certificate,
                Some(12) => DClass::ServerKeyExchange,
                Some(14) => DClass::ServerHelloDone,
                Some(16) => DClass::ClientKeyExchange,
                _ => DClass::OtherHandshake,
            }
        }
        _ => DClass::Other,
    }
}

fn gcm_aad(full_seq: u64, ct: u8, version: (u8, u8), len: usize) -> [u8; 13] {
    let mut aad = [0u8; 13];
    aad[0..8].copy_from_slice(&full_seq.to_be_bytes());
    aad[8] = ct;
    // RFC 5246 6.2.3.3: the additional data covers the version of the record header as received
    aad[9] = version.0;
    aad[10] = version.1;
    aad[11..13].copy_from_slice(&(len as u16).to_be_bytes());
    aad
}

/// Open an AES-128-GCM DTLS 1.2 record body (explicit nonce || ciphertext || tag), RFC 5288/6347.
pub fn dtls_open(key: &[u8], iv: &[u8], rec: &DtlsRec) -> Option<Vec<u8>> {
    if rec.body.len() < 24 || key.len() != 16 || iv.len() != 4 {
        return None;
    }
    let full_seq = ((rec.epoch as u64) << 48) | rec.seq;
    let mut nonce = [0u8; 12];
    nonce[..4].copy_from_slice(iv);
    nonce[4..].copy_from_slice(&rec.body[..8]);
    let cipher = Aes128Gcm::new_from_slice(key).ok()?;
    let aad = gcm_aad(full_seq, rec.content_type, rec.version, rec.body.len() - 24);
    cipher
        .decrypt(
            Nonce::from_slice(&nonce),
            Payload {
                msg: &rec.body[8..],
                aad: &aad,
            },
        )
        .ok()
}

/// Seal a plaintext into a full DTLS record (header included).
pub fn dtls_seal(key: &[u8], iv: &[u8], ct: u8, epoch: u16, seq: u64, plain: &[u8]) -> Vec<u8> {
    let full_seq = ((epoch as u64) << 48) | seq;
    let mut nonce = [0u8; 12];
    nonce[..4].copy_from_slice(iv);
    nonce[4..].copy_from_slice(&full_seq.to_be_bytes());
    let cipher = Aes128Gcm::new_from_slice(key).expect("key");
    let aad = gcm_aad(full_seq, ct, (0xFE, 0xFD), plain.len());
    let c = cipher
        .encrypt(
            Nonce::from_slice(&nonce),
            Payload {
                msg: plain,
                aad: &aad,
            },
        )
        .expect("seal");
    let mut body = full_seq.to_be_bytes().to_vec();
    body.extend_from_slice(&c);
    dtls_record_bytes(ct, epoch, seq, &body)
}

// ---------------------------------------------------------------- SCTP

pub const CT_DATA: u8 = 0;
pub const CT_INIT: u8 = 1;
pub const CT_INIT_ACK: u8 = 2;
pub const CT_SACK: u8 = 3;
pub const CT_HEARTBEAT: u8 = 4;
pub const CT_HEARTBEAT_ACK: u8 = 5;
pub const CT_ABORT: u8 = 6;
pub const CT_SHUTDOWN: u8 = 7;
pub const CT_SHUTDOWN_ACK: u8 = 8;
pub const CT_COOKIE_ECHO: u8 = 10;
pub const CT_COOKIE_ACK: u8 = 11;
pub const CT_RECONFIG: u8 = 130;
pub const CT_FORWARD_TSN: u8 = 192;

#[derive(Clone, Debug)]
pub struct SctpChunk {
    pub ctype: u8,
    pub flags: u8,
    pub value: Vec<u8>,
}

#[derive(Clone, Debug)]
pub struct DataChunk {
    pub tsn: u32,
    pub stream: u16,
    pub ssn: u16,
    pub ppid: u32,
    pub flags: u8,
    pub payload_len: usize,
}

#[derive(Clone, Debug)]
pub struct SackChunk {
    pub cum_tsn: u32,
    pub a_rwnd: u32,
    pub gaps: Vec<(u16, u16)>,
    pub dups: Vec<u32>,
}

#[derive(Clone, Debug)]
pub struct SctpPacket {
    pub src_port: u16,
    pub dst_port: u16,
    pub vtag: u32,
    pub checksum_ok: bool,
    pub chunks: Vec<SctpChunk>,
    pub len: usize,
    /// chunk walk consumed the whole packet without a malformed length
    pub well_formed: bool,
}

pub fn sctp_parse(p: &[u8]) -> Option<SctpPacket> {
    if p.len() < 12 {
        return None;
    }
    let recv = u32::from_le_bytes([p[8], p[9], p[10], p[11]]);
    let mut z = p.to_vec();
    z[8..12].copy_from_slice(&[0; 4]);
    let checksum_ok = crc32c(&z) == recv;
    let mut chunks = Vec::new();
    let mut o = 12;
    let mut well_formed = true;
    while o < p.len() {
        if p.len() - o < 4 {
            well_formed = false;
            break;
        }
        let len = u16::from_be_bytes([p[o + 2], p[o + 3]]) as usize;
        if len < 4 || o + len > p.len() {
            well_formed = false;
            break;
        }
        chunks.push(SctpChunk {
            ctype: p[o],
            flags: p[o + 1],
            value: p[o + 4..o + len].to_vec(),
        });
        o += len;
        let pad = (4 - len % 4) % 4;
        if o + pad > p.len() {
            // final chunk may omit padding only if packet ends exactly
            if o != p.len() {
                well_formed = false;
            }
            break;
        }
        o += pad;
    }
    Some(SctpPacket {
        src_port: u16::from_be_bytes([p[0], p[1]]),
        dst_port: u16::from_be_bytes([p[2], p[3]]),
        vtag: u32::from_be_bytes([p[4], p[5], p[6], p[7]]),
        checksum_ok,
        chunks,
        len: p.len(),
        well_formed,
    })
}

impl SctpChunk {
    pub fn as_data(&self) -> Option<DataChunk> {
        if self.ctype != CT_DATA || self.value.len() < 12 {
            return None;
        }
        let v = &self.value;
        Some(DataChunk {
            tsn: u32::from_be_bytes([v[0], v[1], v[2], v[3]]),
            stream: u16::from_be_bytes([v[4], v[5]]),
            ssn: u16::from_be_bytes([v[6], v[7]]),
            ppid: u32::from_be_bytes([v[8], v[9], v[10], v[11]]),
            flags: self.flags,
            payload_len: v.len() - 12,
        })
    }
    pub fn as_sack(&self) -> Option<SackChunk> {
        if self.ctype != CT_SACK || self.value.len() < 12 {
            return None;
        }
        let v = &self.value;
        let ngaps = u16::from_be_bytes([v[8], v[9]]) as usize;
        let ndups = u16::from_be_bytes([v[10], v[11]]) as usize;
        let mut gaps = Vec::new();
        let mut o = 12;
        for _ in 0..ngaps {
            if o + 4 > v.len() {
                break;
            }
            gaps.push((
                u16::from_be_bytes([v[o], v[o + 1]]),
                u16::from_be_bytes([v[o + 2], v[o + 3]]),
            ));
            o += 4;
        }
        let mut dups = Vec::new();
        for _ in 0..ndups {
            if o + 4 > v.len() {
                break;
            }
            dups.push(u32::from_be_bytes([v[o], v[o + 1], v[o + 2], v[o + 3]]));
            o += 4;
        }
        Some(SackChunk {
            cum_tsn: u32::from_be_bytes([v[0], v[1], v[2], v[3]]),
            a_rwnd: u32::from_be_bytes([v[4], v[5], v[6], v[7]]),
            gaps,
            dups,
        })
    }
    /// (initiate tag, a_rwnd, initial tsn) of INIT / INIT-ACK
    pub fn as_init(&self) -> Option<(u32, u32, u32)> {
        if (self.ctype != CT_INIT && self.ctype != CT_INIT_ACK) || self.value.len() < 16 {
            return None;
        }
        let v = &self.value;
        Some((
            u32::from_be_bytes([v[0], v[1], v[2], v[3]]),
            u32::from_be_bytes([v[4], v[5], v[6], v[7]]),
            u32::from_be_bytes([v[12], v[13], v[14], v[15]]),
        ))
    }
}

/// Class of an SCTP packet for fault addressing: its first chunk's type.
#[derive(Clone, Copy, Debug, PartialEq, Eq, Hash, Serialize, Deserialize, PartialOrd, Ord)]
pub enum SClass {
    Init,
    InitAck,
    CookieEcho,
    CookieAck,
    Data,
    /// DATA carrying DCEP (ppid 50)
    Dcep,
    Sack,
    Heartbeat,
    HeartbeatAck,
    ForwardTsn,
    Reconfig,
    Other,
}

pub fn sctp_class(p: &SctpPacket) -> SClass {
    // SACK bundled in front of DATA is classed as Data (the payload-bearing part is what faults target)
    let mut first = SClass::Other;
    for (i, c) in p.chunks.iter().enumerate() {
        let k = match c.ctype {
            CT_INIT => SClass::Init,
            CT_INIT_ACK => SClass::InitAck,
            CT_COOKIE_ECHO => SClass::CookieEcho,
            CT_COOKIE_ACK => SClass::CookieAck,
            CT_DATA => {
                if c.as_data().map(|d| d.ppid) == Some(50) {
                    SClass::Dcep
                } else {
                    SClass::Data
                }
            }
            CT_SACK => SClass::Sack,
            CT_HEARTBEAT => SClass::Heartbeat,
            CT_HEARTBEAT_ACK => SClass::HeartbeatAck,
            CT_FORWARD_TSN => SClass::ForwardTsn,
            CT_RECONFIG => SClass::Reconfig,
            _ => SClass::Other,
        };
        if i == 0 {
            first = k;
        }
        if matches!(k, SClass::Data | SClass::Dcep) {
            return k;
        }
    }
    first
}

/// Build an SCTP packet with a correct CRC32c (for injection).
pub fn sctp_build(src_port: u16, dst_port: u16, vtag: u32, chunks: &[(u8, u8, Vec<u8>)]) -> Vec<u8> {
    let mut p = Vec::new();
    p.extend_from_slice(&src_port.to_be_bytes());
    p.extend_from_slice(&dst_port.to_be_bytes());
    p.extend_from_slice(&vtag.to_be_bytes());
    p.extend_from_slice(&[0; 4]);
    for (t, f, v) in chunks {
        p.push(*t);
        p.push(*f);
        p.extend_from_slice(&((v.len() + 4) as u16).to_be_bytes());
        p.extend_from_slice(v);
        while p.len() % 4 != 0 {
            p.push(0);
        }
    }
    let c = crc32c(&p);
    p[8..12].copy_from_slice(&c.to_le_bytes());
    p
}

#[cfg(test)]
mod tests {
    #[test]
    fn crc_vector() {
        assert_eq!(super::crc32c(b"123456789"), 0xE3069283);
    }
}
