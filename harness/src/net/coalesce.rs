//! Datagram re-grouping stage of the harness network (between capture and the datagram fault layer).
//!
//! rustrtc puts every DTLS record into its own datagram; other stacks pack a whole flight into one
//! (RFC 6347 4.1.1: "multiple DTLS records may be placed in a single datagram"). This stage re-groups what
//! a sender emitted, as a sender would have been free to do: the records of one *flight* (the run of
//! records up to and including ClientHello / HelloVerifyRequest / ServerHelloDone / Finished) are merged
//! into one datagram, optionally re-ordered inside it and optionally split again into two datagrams.
//! The resulting datagrams then meet the ordinary fault rules, classified by their first record.
//!
//! Flight boundaries are recognised from the records themselves; a 25 ms idle flush only guards against a
//! sender that stops in the middle of a flight (it is never the thing under test).

use super::wire;
use bytes::Bytes;
use parking_lot::Mutex;
use serde::{Deserialize, Serialize};
use std::collections::HashMap;
use std::sync::Arc;
use std::time::Duration;
use tokio::sync::mpsc;
use tokio::task::JoinHandle;

#[derive(Clone, Debug, PartialEq, Eq, Serialize, Deserialize)]
pub struct RegroupSpec {
    /// order of the records inside the merged flight (indices mod n; missing ones appended in order);
    /// empty = as sent
    pub order: Vec<u8>,
    /// the order applies to the first `reorder_first` transmissions of each flight; later transmissions are
    /// merged in the order sent (a persistent re-ordering is not "eventually delivering")
    pub reorder_first: u8,
    /// 0 = one datagram; k > 0: the first k records in one datagram, the rest in a second one
    pub split: u8,
}

#[derive(Clone, Debug, Default)]
pub struct RegroupLog {
    /// datagrams emitted with more than one record
    pub multi_record_datagrams: u32,
    pub flights: u32,
    /// flights whose records were delivered in another order than sent
    pub reordered_flights: u32,
    pub idle_flushes: u32,
}

fn is_flight_end(r: &wire::DtlsRec) -> bool {
    if r.content_type != 22 {
        return false;
    }
    if r.epoch > 0 {
        return true; // Finished
    }
    match wire::hs_header(&r.body) {
        // only the last fragment of a fragmented message ends the flight
        Some(h) => matches!(h.msg_type, 1 | 3 | 14) && h.frag_off + h.frag_len >= h.length,
        None => false,
    }
}

fn rec_bytes(d: &[u8], r: &wire::DtlsRec) -> Bytes {
    Bytes::copy_from_slice(&d[r.offset..r.offset + 13 + r.body.len()])
}

pub fn arrange(spec: &RegroupSpec, recs: &[Bytes], transmission: u32) -> (Vec<Bytes>, bool) {
    let n = recs.len();
    let mut seq: Vec<usize> = if transmission < spec.reorder_first as u32 && n > 0 {
        spec.order.iter().map(|i| *i as usize % n).collect()
    } else {
        Vec::new()
    };
    let mut dedup = Vec::new();
    for i in seq.drain(..) {
        if !dedup.contains(&i) {
            dedup.push(i);
        }
    }
    for i in 0..n {
        if !dedup.contains(&i) {
            dedup.push(i);
        }
    }
    let reordered = !dedup.iter().copied().eq(0..n);
    let k = (spec.split as usize).min(n);
    let mut out = Vec::new();
    let mut push = |idx: &[usize]| {
        if !idx.is_empty() {
            let mut v = Vec::new();
            for i in idx {
                v.extend_from_slice(&recs[*i]);
            }
            out.push(Bytes::from(v));
        }
    };
    if k == 0 || k == n {
        push(&dedup);
    } else {
        push(&dedup[..k]);
        push(&dedup[k..]);
    }
    (out, reordered)
}

/// Spawn the stage for one direction.
pub fn spawn(mut rx: mpsc::UnboundedReceiver<Bytes>, spec: RegroupSpec, log: Arc<Mutex<RegroupLog>>) -> (mpsc::UnboundedReceiver<Bytes>, JoinHandle<()>) {
    let (tx, out) = mpsc::unbounded_channel::<Bytes>();
    let h = tokio::spawn(async move {
        let mut buf: Vec<Bytes> = Vec::new();
        let mut first_class: Option<wire::DClass> = None;
        let mut sent: HashMap<wire::DClass, u32> = HashMap::new();
        let flush = |buf: &mut Vec<Bytes>, first_class: &mut Option<wire::DClass>, sent: &mut HashMap<wire::DClass, u32>| {
            if buf.is_empty() {
                return true;
            }
            let key = first_class.take().unwrap_or(wire::DClass::Other);
            let n = sent.entry(key).or_insert(0);
            let (dgrams, reordered) = arrange(&spec, buf, *n);
            *n += 1;
            {
                let mut l = log.lock();
                l.flights += 1;
                if reordered {
                    l.reordered_flights += 1;
                }
                for d in &dgrams {
                    if wire::dtls_records(d).len() > 1 {
                        l.multi_record_datagrams += 1;
                    }
                }
            }
            buf.clear();
            for d in dgrams {
                if tx.send(d).is_err() {
                    return false;
                }
            }
            true
        };
        loop {
            let idle = tokio::time::sleep(Duration::from_millis(25));
            tokio::select! {
                pkt = rx.recv() => {
                    let Some(pkt) = pkt else { break };
                    let recs = wire::dtls_records(&pkt);
                    let covered: usize = recs.iter().map(|r| 13 + r.body.len()).sum();
                    if recs.is_empty() || covered != pkt.len() {
                        // not DTLS: flush and pass through
                        if !flush(&mut buf, &mut first_class, &mut sent) || tx.send(pkt).is_err() { break; }
                        continue;
                    }
                    let mut alive = true;
                    for r in &recs {
                        let one = rec_bytes(&pkt, r);
                        if r.content_type == 22 || r.content_type == 20 {
                            if buf.is_empty() {
                                first_class = Some(wire::dtls_class(&one));
                            }
                            buf.push(one);
                            if is_flight_end(r) {
                                alive &= flush(&mut buf, &mut first_class, &mut sent);
                            }
                        } else {
                            // application data / alert: never merged with a flight
                            alive &= flush(&mut buf, &mut first_class, &mut sent);
                            alive &= tx.send(one).is_ok();
                        }
                    }
                    if !alive { break; }
                }
                _ = idle, if !buf.is_empty() => {
                    log.lock().idle_flushes += 1;
                    if !flush(&mut buf, &mut first_class, &mut sent) { break; }
                }
            }
        }
    });
    (out, h)
}

#[cfg(test)]
mod tests {
    use super::*;
    #[test]
    fn arrange_merges_and_splits() {
        let recs: Vec<Bytes> = (0..3u8).map(|i| Bytes::from(vec![i; 2])).collect();
        let s = RegroupSpec { order: vec![2, 0], reorder_first: 1, split: 1 };
        let (d, re) = arrange(&s, &recs, 0);
        assert!(re);
        assert_eq!(d, vec![Bytes::from(vec![2u8, 2]), Bytes::from(vec![0u8, 0, 1, 1])]);
        let (d, re) = arrange(&s, &recs, 1);
        assert!(!re);
        assert_eq!(d.len(), 2);
        assert_eq!(d[0], Bytes::from(vec![0u8, 0]));
    }
}
