//! E2: two real endpoints (IceConn + DTLS [+ SCTP]) joined by a harness-owned network.
//!
//! Datagram layer: each endpoint's IceConn sends through its own loopback UDP socket to a
//! harness proxy socket; the harness classifies every datagram, applies the datagram fault plan
//! and injects it into the peer with `IceConn::receive`. SCTP layer (optional): the harness sits
//! between DtlsTransport's decrypted application-data channel and SctpTransport's input, so SCTP
//! packets are classified in the clear (one SCTP packet == one DTLS record == one datagram; DTLS
//! here has no anti-replay window, so duplicating the plaintext is equivalent to duplicating the
//! datagram).

use super::coalesce::{self, RegroupLog, RegroupSpec};
use super::fault::{Classify, Deliver, FaultLayer, Rule, Side, pump};
use super::wire::{self, DClass, SClass};
use bytes::Bytes;
use parking_lot::Mutex;
use rustrtc::RtcConfiguration;
use rustrtc::transports::PacketReceiver;
use rustrtc::transports::dtls::{self, Certificate, DtlsState, DtlsTransport};
use rustrtc::transports::ice::IceSocketWrapper;
use rustrtc::transports::ice::conn::IceConn;
use rustrtc::transports::sctp::{DataChannel, SctpTransport};
use std::net::SocketAddr;
use std::sync::{Arc, Weak};
use std::time::Duration;
use tokio::net::UdpSocket;
use tokio::sync::{mpsc, watch};
use tokio::task::JoinHandle;

/// A small pool of pre-generated certificates (generation costs an EC keygen + self-signature).
pub fn cert(i: usize) -> Certificate {
    static POOL: std::sync::OnceLock<Vec<Certificate>> = std::sync::OnceLock::new();
    let pool = POOL.get_or_init(|| {
        (0..6)
            .map(|_| dtls::generate_certificate().expect("certificate"))
            .collect()
    });
    pool[i % pool.len()].clone()
}

/// Parsed summary of an SCTP packet kept in the trace (payload bytes dropped).
#[derive(Clone, Debug)]
pub struct SctpInfo {
    pub pkt: Option<wire::SctpPacket>,
}

pub type DgramLayer = FaultLayer<DClass, ()>;
pub type SctpLayer = FaultLayer<SClass, SctpInfo>;

#[derive(Clone)]
pub struct SctpSide {
    pub config: RtcConfiguration,
    pub initial_tsn: Option<u32>,
    pub channels: Vec<Arc<DataChannel>>,
}

pub struct PairSpec {
    pub dgram_rules: Vec<Rule<DClass>>,
    pub sctp_rules: Vec<Rule<SClass>>,
    /// (retransmit interval, handshake deadline) via hook H2; None = production timers
    pub dtls_timers: Option<(Duration, Duration)>,
    pub cert_a: Certificate,
    pub cert_b: Certificate,
    pub expected_fp_a: Option<String>,
    pub expected_fp_b: Option<String>,
    pub sctp: Option<(SctpSide, SctpSide)>,
    pub keep_trace: bool,
    /// A is the DTLS/SCTP client unless swapped
    pub a_is_client: bool,
}

impl PairSpec {
    pub fn plain() -> Self {
        let (ca, cb) = (cert(0), cert(1));
        Self {
            dgram_rules: vec![],
            sctp_rules: vec![],
            dtls_timers: Some((Duration::from_millis(60), Duration::from_secs(6))),
            expected_fp_a: Some(dtls::fingerprint(&cb)),
            expected_fp_b: Some(dtls::fingerprint(&ca)),
            cert_a: ca,
            cert_b: cb,
            sctp: None,
            keep_trace: true,
            a_is_client: true,
        }
    }
}

/// Optional extras of `Pair::build_with` (kept out of `PairSpec` so that existing struct literals stay valid).
#[derive(Clone, Default)]
pub struct Extras {
    /// re-group the datagrams sent by A / by B before they reach the fault layer (see `net::coalesce`)
    pub regroup_a: Option<RegroupSpec>,
    pub regroup_b: Option<RegroupSpec>,
}

/// A datagram with more than one DTLS record handed to an endpoint.
#[derive(Clone, Debug)]
pub struct MultiRx {
    /// receiving side
    pub to: Side,
    pub first: DClass,
    pub records: usize,
    /// the receiving DTLS transport was Connected at that moment
    pub to_connected: bool,
}

pub struct End {
    pub side: Side,
    pub conn: Arc<IceConn>,
    pub dtls: Arc<DtlsTransport>,
    pub sctp: Option<Arc<SctpTransport>>,
    pub sock_addr: SocketAddr,
    /// address the endpoint believes its peer has (the harness proxy)
    pub proxy_addr: SocketAddr,
    /// decrypted application data, when no SCTP sits on top
    pub app_rx: Option<mpsc::UnboundedReceiver<Bytes>>,
    pub new_dc_rx: Option<mpsc::UnboundedReceiver<Arc<DataChannel>>>,
    pub channels: Arc<Mutex<Vec<Weak<DataChannel>>>>,
    _sock_tx: watch::Sender<Option<IceSocketWrapper>>,
}

pub struct Pair {
    pub a: End,
    pub b: End,
    pub dgram: Arc<Mutex<DgramLayer>>,
    pub sctp_layer: Arc<Mutex<SctpLayer>>,
    /// every multi-record datagram delivered to an endpoint
    pub multi_rx: Arc<Mutex<Vec<MultiRx>>>,
    /// what the re-grouping stages did ([from A, from B])
    pub regroup_log: [Arc<Mutex<RegroupLog>>; 2],
    tasks: Vec<JoinHandle<()>>,
}

impl Drop for Pair {
    fn drop(&mut self) {
        for t in &self.tasks {
            t.abort();
        }
    }
}

async fn bind() -> Arc<UdpSocket> {
    Arc::new(UdpSocket::bind("127.0.0.1:0").await.expect("bind loopback"))
}

fn socket_reader(sock: Arc<UdpSocket>) -> (mpsc::UnboundedReceiver<Bytes>, JoinHandle<()>) {
    let (tx, rx) = mpsc::unbounded_channel();
    let h = tokio::spawn(async move {
        let mut buf = vec![0u8; 65536];
        loop {
            match sock.recv_from(&mut buf).await {
                Ok((n, _)) => {
                    if tx.send(Bytes::copy_from_slice(&buf[..n])).is_err() {
                        break;
                    }
                }
                Err(_) => break,
            }
        }
    });
    (rx, h)
}

impl Pair {
    pub async fn build(spec: PairSpec) -> anyhow::Result<Pair> {
        Self::build_with(spec, Extras::default()).await
    }

    pub async fn build_with(spec: PairSpec, extras: Extras) -> anyhow::Result<Pair> {
        let (sock_a, sock_b, proxy_a, proxy_b) = (bind().await, bind().await, bind().await, bind().await);
        let (pa, pb) = (proxy_a.local_addr()?, proxy_b.local_addr()?);
        let (stx_a, srx_a) = watch::channel(Some(IceSocketWrapper::Udp(sock_a.clone())));
        let (stx_b, srx_b) = watch::channel(Some(IceSocketWrapper::Udp(sock_b.clone())));
        let conn_a = IceConn::new(srx_a, pa, Some("A".into()));
        let conn_b = IceConn::new(srx_b, pb, Some("B".into()));

        let (dtls_a, app_a, run_a) = DtlsTransport::new(
            conn_a.clone(),
            spec.cert_a.clone(),
            spec.a_is_client,
            2048,
            spec.expected_fp_a.clone(),
        )
        .await?;
        let (dtls_b, app_b, run_b) = DtlsTransport::new(
            conn_b.clone(),
            spec.cert_b.clone(),
            !spec.a_is_client,
            2048,
            spec.expected_fp_b.clone(),
        )
        .await?;

        let dgram = Arc::new(Mutex::new(DgramLayer::new(spec.dgram_rules.clone(), spec.keep_trace)));
        let sctp_layer = Arc::new(Mutex::new(SctpLayer::new(spec.sctp_rules.clone(), spec.keep_trace)));
        let mut tasks = Vec::new();

        // datagram pumps
        let classify_d: Classify<DClass, ()> = Arc::new(|b: &[u8]| (wire::dtls_class(b), ()));
        let multi_rx: Arc<Mutex<Vec<MultiRx>>> = Arc::new(Mutex::new(Vec::new()));
        let regroup_log = [Arc::new(Mutex::new(RegroupLog::default())), Arc::new(Mutex::new(RegroupLog::default()))];
        for (proxy, from, to_conn, to_dtls, src, regroup, rlog) in [
            (proxy_a, Side::A, conn_b.clone(), dtls_b.clone(), pb, extras.regroup_a.clone(), regroup_log[0].clone()),
            (proxy_b, Side::B, conn_a.clone(), dtls_a.clone(), pa, extras.regroup_b.clone(), regroup_log[1].clone()),
        ] {
            let (rx, h) = socket_reader(proxy);
            tasks.push(h);
            let rx = match regroup {
                Some(sp) => {
                    let (rx2, h2) = coalesce::spawn(rx, sp, rlog);
                    tasks.push(h2);
                    rx2
                }
                None => rx,
            };
            let multi = multi_rx.clone();
            let deliver: Deliver = Arc::new(move |bytes: Bytes| {
                let c = to_conn.clone();
                let recs = wire::dtls_records(&bytes);
                if recs.len() > 1 {
                    multi.lock().push(MultiRx {
                        to: from.other(),
                        first: wire::dtls_class(&bytes),
                        records: recs.len(),
                        to_connected: matches!(to_dtls.get_state(), DtlsState::Connected(..)),
                    });
                }
                Box::pin(async move {
                    let mut buf = Vec::new();
                    c.receive(bytes, src, &mut buf).await;
                })
            });
            tasks.push(tokio::spawn(pump(rx, dgram.clone(), from, classify_d.clone(), deliver)));
        }

        let channels_a: Arc<Mutex<Vec<Weak<DataChannel>>>> = Arc::new(Mutex::new(Vec::new()));
        let channels_b: Arc<Mutex<Vec<Weak<DataChannel>>>> = Arc::new(Mutex::new(Vec::new()));
        let (mut sctp_a, mut sctp_b) = (None, None);
        let (mut app_rx_a, mut app_rx_b) = (Some(app_a), Some(app_b));
        let (mut ndc_a, mut ndc_b) = (None, None);
        let mut sctp_runners = Vec::new();
        if let Some((sa, sb)) = &spec.sctp {
            let classify_s: Classify<SClass, SctpInfo> = Arc::new(|b: &[u8]| {
                let pkt = wire::sctp_parse(b);
                let class = pkt.as_ref().map(wire::sctp_class).unwrap_or(SClass::Other);
                // keep the summary light: drop DATA payload bytes
                let pkt = pkt.map(|mut p| {
                    for c in p.chunks.iter_mut() {
                        if c.ctype == wire::CT_DATA && c.value.len() > 12 {
                            // keep the 12-byte DATA header and append the payload length (see trace_data_len)
                            let plen = c.value.len() - 12;
                            c.value.truncate(12);
                            c.value.extend_from_slice(&(plen as u32).to_be_bytes());
                        }
                    }
                    p
                });
                (class, SctpInfo { pkt })
            });
            for (side, cfg, dtls_t, app_rx, chans, ndc_slot, sctp_slot, is_client) in [
                (Side::A, sa, dtls_a.clone(), app_rx_a.take().unwrap(), channels_a.clone(), &mut ndc_a, &mut sctp_a, spec.a_is_client),
                (Side::B, sb, dtls_b.clone(), app_rx_b.take().unwrap(), channels_b.clone(), &mut ndc_b, &mut sctp_b, !spec.a_is_client),
            ] {
                for dc in &cfg.channels {
                    chans.lock().push(Arc::downgrade(dc));
                }
                let (in_tx, in_rx) = mpsc::unbounded_channel::<Bytes>();
                let (ndc_tx, ndc_rx) = mpsc::unbounded_channel();
                let (t, runner) = SctpTransport::new(
                    dtls_t,
                    in_rx,
                    chans.clone(),
                    5000,
                    5000,
                    Some(ndc_tx),
                    is_client,
                    &cfg.config,
                );
                *ndc_slot = Some(ndc_rx);
                *sctp_slot = Some(t);
                // packets arriving at `side` were sent by the other side
                let from = side.other();
                let deliver: Deliver = Arc::new(move |bytes: Bytes| {
                    let tx = in_tx.clone();
                    Box::pin(async move {
                        let _ = tx.send(bytes);
                    })
                });
                tasks.push(tokio::spawn(pump(app_rx, sctp_layer.clone(), from, classify_s.clone(), deliver)));
                sctp_runners.push((cfg.initial_tsn, runner));
            }
        }

        // start: server side first
        let timers = spec.dtls_timers;
        let (first, second) = if spec.a_is_client { (run_b, run_a) } else { (run_a, run_b) };
        tasks.push(tokio::spawn(rustrtc::verif::DTLS_TIMERS.scope(timers, first)));
        tasks.push(tokio::spawn(rustrtc::verif::DTLS_TIMERS.scope(timers, second)));
        for (tsn, runner) in sctp_runners {
            tasks.push(tokio::spawn(rustrtc::verif::SCTP_INITIAL_TSN.scope(tsn, runner)));
        }

        Ok(Pair {
            a: End {
                side: Side::A,
                conn: conn_a,
                dtls: dtls_a,
                sctp: sctp_a,
                sock_addr: sock_a.local_addr()?,
                proxy_addr: pa,
                app_rx: app_rx_a,
                new_dc_rx: ndc_a,
                channels: channels_a,
                _sock_tx: stx_a,
            },
            b: End {
                side: Side::B,
                conn: conn_b,
                dtls: dtls_b,
                sctp: sctp_b,
                sock_addr: sock_b.local_addr()?,
                proxy_addr: pb,
                app_rx: app_rx_b,
                new_dc_rx: ndc_b,
                channels: channels_b,
                _sock_tx: stx_b,
            },
            dgram,
            sctp_layer,
            multi_rx,
            regroup_log,
            tasks,
        })
    }

    pub fn end(&self, s: Side) -> &End {
        match s {
            Side::A => &self.a,
            Side::B => &self.b,
        }
    }

    pub fn end_mut(&mut self, s: Side) -> &mut End {
        match s {
            Side::A => &mut self.a,
            Side::B => &mut self.b,
        }
    }

    /// Wait until both DTLS transports are Connected (or either leaves Handshaking for good).
    pub async fn wait_dtls(&self, limit: Duration) -> (DtlsState, DtlsState) {
        let deadline = tokio::time::Instant::now() + limit;
        let mut ra = self.a.dtls.subscribe_state();
        let mut rb = self.b.dtls.subscribe_state();
        loop {
            let sa = ra.borrow_and_update().clone();
            let sb = rb.borrow_and_update().clone();
            let done = |s: &DtlsState| matches!(s, DtlsState::Connected(..) | DtlsState::Failed | DtlsState::Closed);
            if done(&sa) && done(&sb) {
                return (sa, sb);
            }
            tokio::select! {
                _ = ra.changed() => {}
                _ = rb.changed() => {}
                _ = tokio::time::sleep_until(deadline) => {
                    return (self.a.dtls.get_state(), self.b.dtls.get_state());
                }
            }
        }
    }

    /// Inject raw bytes into an endpoint as if they arrived from `src`.
    pub async fn inject(&self, to: Side, bytes: Bytes, src: SocketAddr) {
        let mut buf = Vec::new();
        self.end(to).conn.receive(bytes, src, &mut buf).await;
    }
}

/// Data payload length of a DATA chunk summary produced by the trace classifier above.
pub fn trace_data_len(c: &wire::SctpChunk) -> usize {
    if c.ctype == wire::CT_DATA && c.value.len() == 16 {
        u32::from_be_bytes([c.value[12], c.value[13], c.value[14], c.value[15]]) as usize
    } else {
        0
    }
}

pub fn state_name(s: &DtlsState) -> &'static str {
    match s {
        DtlsState::New => "New",
        DtlsState::Handshaking => "Handshaking",
        DtlsState::Connected(..) => "Connected",
        DtlsState::Failed => "Failed",
        DtlsState::Closed => "Closed",
    }
}
