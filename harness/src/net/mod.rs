//! E2/E3: harness-owned network between two real endpoints, and independent wire readers.
pub mod coalesce;
pub mod fault;
pub mod rig;
pub mod wire;
pub mod sacksynth;
pub mod setupforge;
