//! Process-wide panic recorder. tokio catches panics of spawned tasks, but the
//! hook still fires, so a panic in any task of the stack is observable here.

use parking_lot::Mutex;
use std::sync::Once;

static LOG: Mutex<Vec<(String, String)>> = Mutex::new(Vec::new());
static INSTALL: Once = Once::new();

pub fn install() {
    INSTALL.call_once(|| {
        let verbose = std::env::var("VERIF_VERBOSE").is_ok();
        std::panic::set_hook(Box::new(move |info| {
            let loc = info
                .location()
                .map(|l| {
                    let f = l.file();
                    // make locations stable across checkouts
                    let f = f.rsplit_once("/src/").map(|(_, b)| b).unwrap_or(f);
                    format!("{}:{}", f, l.line())
                })
                .unwrap_or_else(|| "?".into());
            let msg = if let Some(s) = info.payload().downcast_ref::<&str>() {
                s.to_string()
            } else if let Some(s) = info.payload().downcast_ref::<String>() {
                s.clone()
            } else {
                "non-string panic".into()
            };
            if verbose {
                eprintln!("[panic] {loc}: {msg}");
            }
            LOG.lock().push((loc, msg));
        }));
    });
}

pub fn count() -> usize {
    LOG.lock().len()
}

pub fn since(n: usize) -> Vec<(String, String)> {
    let g = LOG.lock();
    g[n.min(g.len())..].to_vec()
}
