//! E1: seeded runner, case classifier, evidence writer, replay and
//! known-findings handling shared by every property module.

pub mod panics;

use parking_lot::Mutex;
use proptest::strategy::{Strategy, ValueTree};
use proptest::test_runner::{Config, RngSeed, TestCaseError, TestError, TestRunner};
use serde::{Serialize, de::DeserializeOwned};
use serde_json::{Value, json};
use std::collections::{BTreeMap, HashSet};
use std::fmt::Debug;
use std::path::{Path, PathBuf};
use std::time::Instant;

/// Root for evidence/, replays/ and known_findings.json (overridable for scratch work copies).
pub fn verif_root() -> String {
    std::env::var("VERIF_ROOT_DIR").unwrap_or_else(|_| "/verif".to_string())
}

#[derive(Clone, Copy, PartialEq, Eq, Debug)]
pub enum Tier {
    Quick,
    Thorough,
}

impl Tier {
    pub fn name(self) -> &'static str {
        match self {
            Tier::Quick => "quick",
            Tier::Thorough => "thorough",
        }
    }
}

/// A failed oracle. `signature` is the stable key compared against
/// known_findings.json; `msg` is free text for the replay file.
#[derive(Debug, Clone)]
pub struct Fail {
    pub signature: String,
    pub msg: String,
    /// the failed clause is time-bounded (liveness): subject to the re-run rule of DESIGN 2.6
    pub timing: bool,
    /// a definitive-looking stall observed in a concurrent batch: it counts when it reproduces alone,
    /// or when at least three distinct cases of the same sub-check show it in one run; a single
    /// unreproducible occurrence is recorded as inconclusive (DESIGN 2.6)
    pub stall: bool,
}

impl Fail {
    pub fn new(signature: impl Into<String>, msg: impl Into<String>) -> Self {
        Self {
            signature: signature.into(),
            msg: msg.into(),
            timing: false,
            stall: false,
        }
    }
    pub fn stall(signature: impl Into<String>, msg: impl Into<String>) -> Self {
        Self {
            signature: signature.into(),
            msg: msg.into(),
            timing: false,
            stall: true,
        }
    }
    pub fn timing(signature: impl Into<String>, msg: impl Into<String>) -> Self {
        Self {
            signature: signature.into(),
            msg: msg.into(),
            timing: true,
            stall: false,
        }
    }
}

pub type Check = Result<(), Fail>;

pub type AsyncCheck<T> = std::sync::Arc<
    dyn Fn(T) -> futures::future::BoxFuture<'static, (CaseRec, Check)> + Send + Sync,
>;

#[macro_export]
macro_rules! ensure {
    ($cond:expr, $sig:expr, $($arg:tt)*) => {
        if !($cond) {
            return Err($crate::engine::Fail::new($sig, format!($($arg)*)));
        }
    };
}

/// Per-case recorder handed to a check so it can classify the case.
#[derive(Default)]
pub struct CaseRec {
    labels: Mutex<Vec<String>>,
    nontrivial: std::sync::atomic::AtomicBool,
    inconclusive: std::sync::atomic::AtomicBool,
}

impl CaseRec {
    pub fn label(&self, l: impl Into<String>) {
        self.labels.lock().push(l.into());
    }
    pub fn nontrivial(&self) {
        self.nontrivial
            .store(true, std::sync::atomic::Ordering::Relaxed);
    }
    pub fn set_nontrivial(&self, v: bool) {
        if v {
            self.nontrivial();
        }
    }
    /// A time-bounded clause could not be decided (rule 2.6): counted, never a violation.
    pub fn inconclusive_timing(&self) {
        self.inconclusive
            .store(true, std::sync::atomic::Ordering::Relaxed);
    }
}

#[derive(Clone, Debug)]
struct KnownFinding {
    signature: String,
    what: String,
}

#[derive(Default)]
struct Stats {
    evaluations: u64,
    frozen: bool,
    nontrivial: HashSet<u64>,
    bulk_nontrivial: u64,
    classes: BTreeMap<String, u64>,
    samples: Vec<Value>,
    sub_evals: BTreeMap<String, u64>,
    excluded_known: BTreeMap<String, u64>,
    inconclusive_timing: u64,
    known_printed: HashSet<String>,
    violations: Vec<(String, PathBuf, String)>,
    replays_run: u64,
    extra: BTreeMap<String, Value>,
    exhaustive: Option<bool>,
}

pub struct Ctx {
    pub prop: &'static str,
    pub tier: Tier,
    pub seed: u64,
    pub level: &'static str,
    pub rule: String,
    pub assumptions: Vec<String>,
    /// Some((sub, case)) when invoked with --replay.
    replay: Option<(String, Value)>,
    /// strict: known findings are NOT tolerated (used by --replay).
    strict: bool,
    known: Vec<KnownFinding>,
    stats: Mutex<Stats>,
    started: Instant,
    max_samples: usize,
}

fn fnv(s: &str) -> u64 {
    let mut h: u64 = 0xcbf29ce484222325;
    for b in s.bytes() {
        h ^= b as u64;
        h = h.wrapping_mul(0x100000001b3);
    }
    h
}

static VIOLATION_SEEN: std::sync::atomic::AtomicBool = std::sync::atomic::AtomicBool::new(false);

/// Leave the process because of harness/tool trouble (inconclusive, exit 2) - unless a VIOLATION line
/// has already been printed in this run, in which case the verdict stands (exit 1).
pub fn exit_trouble() -> ! {
    if VIOLATION_SEEN.load(std::sync::atomic::Ordering::SeqCst) {
        std::process::exit(1)
    }
    std::process::exit(2)
}

pub fn progress() -> bool {
    std::env::var("VERIF_PROGRESS").is_ok()
}

pub fn digest_value(v: &Value) -> u64 {
    fnv(&v.to_string())
}

impl Ctx {
    pub fn new(prop: &'static str, tier: Tier, seed: u64, replay_file: Option<&Path>) -> Self {
        let mut known = Vec::new();
        let kf_path = Path::new(&verif_root()).join("known_findings.json");
        if let Ok(text) = std::fs::read_to_string(&kf_path) {
            if let Ok(v) = serde_json::from_str::<Value>(&text) {
                if let Some(arr) = v.get("findings").and_then(|f| f.as_array()) {
                    for f in arr {
                        if f.get("property").and_then(|p| p.as_str()) == Some(prop) {
                            known.push(KnownFinding {
                                signature: f["signature"].as_str().unwrap_or("").to_string(),
                                what: f["what"].as_str().unwrap_or("").to_string(),
                            });
                        }
                    }
                }
            }
        }
        let replay = replay_file.map(|p| {
            let text = std::fs::read_to_string(p).unwrap_or_else(|e| {
                eprintln!("cannot read replay {}: {e}", p.display());
                std::process::exit(2)
            });
            let v: Value = serde_json::from_str(&text).unwrap_or_else(|e| {
                eprintln!("bad replay file: {e}");
                std::process::exit(2)
            });
            (
                v["sub"].as_str().unwrap_or("").to_string(),
                v["case"].clone(),
            )
        });
        Self {
            prop,
            tier,
            seed,
            level: "exploration",
            rule: String::new(),
            assumptions: Vec::new(),
            strict: replay.is_some(),
            replay,
            known,
            stats: Mutex::new(Stats::default()),
            started: Instant::now(),
            max_samples: 8,
        }
    }

    pub fn is_replay(&self) -> bool {
        self.replay.is_some()
    }

    pub fn thorough(&self) -> bool {
        self.tier == Tier::Thorough
    }

    /// Pick the quick or thorough amount of work.
    pub fn scale<T>(&self, quick: T, thorough: T) -> T {
        match self.tier {
            Tier::Quick => quick,
            Tier::Thorough => thorough,
        }
    }

    pub fn sub_seed(&self, sub: &str) -> u64 {
        self.seed
            .wrapping_mul(0x9E3779B97F4A7C15)
            .wrapping_add(fnv(self.prop))
            ^ fnv(sub).rotate_left(17)
    }

    pub fn config(&self, sub: &str, cases: u32) -> Config {
        Config {
            cases,
            failure_persistence: None,
            rng_seed: RngSeed::Fixed(self.sub_seed(sub)),
            max_shrink_iters: 4096,
            max_global_rejects: 65536,
            max_local_rejects: 65536,
            ..Config::default()
        }
    }

    pub fn set_extra(&self, k: &str, v: Value) {
        self.stats.lock().extra.insert(k.to_string(), v);
    }

    pub fn add_extra_count(&self, k: &str, n: u64) {
        let mut st = self.stats.lock();
        let cur = st.extra.get(k).and_then(|v| v.as_u64()).unwrap_or(0);
        st.extra.insert(k.to_string(), json!(cur + n));
    }

    pub fn set_exhaustive(&self, v: bool) {
        let mut st = self.stats.lock();
        st.exhaustive = Some(st.exhaustive.unwrap_or(true) && v);
    }

    fn known_match(&self, sig: &str) -> Option<&KnownFinding> {
        if self.strict {
            return None;
        }
        self.known.iter().find(|k| k.signature == sig)
    }

    pub fn is_known(&self, sig: &str) -> bool {
        self.known_match(sig).is_some()
    }

    /// Generators call this when they steer away from a known finding by construction.
    pub fn note_excluded(&self, sig: &str, n: u64) {
        if let Some(k) = self.known_match(sig) {
            let what = k.what.clone();
            let mut st = self.stats.lock();
            *st.excluded_known.entry(sig.to_string()).or_default() += n;
            if st.known_printed.insert(sig.to_string()) {
                println!("KNOWN-FINDING: property={} {} [{}]", self.prop, what, sig);
            }
        }
    }

    /// Record one executed case. Returns Ok if it passed or hit a known finding.
    pub fn record(&self, sub: &str, case: &Value, rec: &CaseRec, res: &Check) -> Check {
        let mut st = self.stats.lock();
        if !st.frozen {
            st.evaluations += 1;
            *st.sub_evals.entry(sub.to_string()).or_default() += 1;
            for l in rec.labels.lock().iter() {
                *st.classes.entry(l.clone()).or_default() += 1;
            }
            if rec.inconclusive.load(std::sync::atomic::Ordering::Relaxed) {
                st.inconclusive_timing += 1;
            }
            if rec.nontrivial.load(std::sync::atomic::Ordering::Relaxed) {
                let d = digest_value(case) ^ fnv(sub);
                if st.nontrivial.insert(d) {
                    let n = st.nontrivial.len();
                    // keep the first few and then a thinning sample
                    if st.samples.len() < self.max_samples
                        && (n <= 3 || n.is_power_of_two())
                    {
                        let mut s = json!({"sub": sub, "case": case});
                        truncate_sample(&mut s);
                        st.samples.push(s);
                    }
                }
            }
        }
        match res {
            Ok(()) => Ok(()),
            Err(f) => {
                if let Some(k) = self.known_match(&f.signature) {
                    *st.excluded_known.entry(f.signature.clone()).or_default() += 1;
                    if st.known_printed.insert(f.signature.clone()) {
                        println!(
                            "KNOWN-FINDING: property={} {} [{}]",
                            self.prop, k.what, f.signature
                        );
                    }
                    Ok(())
                } else {
                    Err(f.clone())
                }
            }
        }
    }

    fn freeze(&self) {
        self.stats.lock().frozen = true;
    }
    fn unfreeze(&self) {
        self.stats.lock().frozen = false;
    }

    /// Write a replay file and print the VIOLATION line.
    pub fn violation(&self, sub: &str, case: &Value, f: &Fail) {
        let body = json!({
            "property": self.prop,
            "sub": sub,
            "signature": f.signature,
            "message": f.msg,
            "seed": self.seed,
            "tier": self.tier.name(),
            "case": case,
        });
        let dir = Path::new(&verif_root()).join("replays").join(self.prop);
        let _ = std::fs::create_dir_all(&dir);
        let d = digest_value(&json!({"sub": sub, "case": case}));
        let path = dir.join(format!("{}-{:016x}.json", sub, d));
        if !self.is_replay() {
            let _ = std::fs::write(&path, serde_json::to_string_pretty(&body).unwrap());
        }
        VIOLATION_SEEN.store(true, std::sync::atomic::Ordering::SeqCst);
        println!("VIOLATION property={} replay={}", self.prop, path.display());
        println!("  sub={} signature={}", sub, f.signature);
        let m: String = f.msg.chars().take(2000).collect();
        println!("  {}", m);
        self.stats
            .lock()
            .violations
            .push((sub.to_string(), path, f.signature.clone()));
    }

    /// Bulk accounting for enumerators whose cases are distinct by construction
    /// (avoids serialising millions of cases just to hash them).
    pub fn bulk(
        &self,
        sub: &str,
        evaluations: u64,
        distinct_nontrivial: u64,
        classes: &[(&str, u64)],
        samples: Vec<Value>,
    ) {
        let mut st = self.stats.lock();
        st.evaluations += evaluations;
        *st.sub_evals.entry(sub.to_string()).or_default() += evaluations;
        st.bulk_nontrivial += distinct_nontrivial;
        for (k, n) in classes {
            *st.classes.entry(k.to_string()).or_default() += n;
        }
        for mut s in samples {
            if st.samples.len() < self.max_samples + 4 {
                truncate_sample(&mut s);
                st.samples.push(json!({"sub": sub, "case": s}));
            }
        }
    }

    pub fn has_violation(&self) -> bool {
        !self.stats.lock().violations.is_empty()
    }

    /// Committed replays for this sub-check (regression tier), run before generation.
    fn committed_replays(&self, sub: &str) -> Vec<(PathBuf, Value)> {
        let dir = Path::new(&verif_root()).join("replays").join(self.prop);
        let mut out = Vec::new();
        if let Ok(rd) = std::fs::read_dir(&dir) {
            let mut files: Vec<_> = rd.flatten().map(|e| e.path()).collect();
            files.sort();
            for p in files {
                if p.extension().and_then(|e| e.to_str()) != Some("json") {
                    continue;
                }
                if let Ok(t) = std::fs::read_to_string(&p) {
                    if let Ok(v) = serde_json::from_str::<Value>(&t) {
                        if v["sub"].as_str() == Some(sub) {
                            out.push((p, v["case"].clone()));
                        }
                    }
                }
            }
        }
        out
    }

    /// Run `check` on one explicit case (replay / regression / enumerated).
    pub fn run_one<T: Serialize>(
        &self,
        sub: &str,
        case: &T,
        check: &dyn Fn(&T, &CaseRec) -> Check,
    ) -> bool {
        let v = serde_json::to_value(case).unwrap_or(Value::Null);
        let rec = CaseRec::default();
        let res = guarded(|| check(case, &rec));
        match self.record(sub, &v, &rec, &res) {
            Ok(()) => true,
            Err(f) => {
                self.violation(sub, &v, &f);
                false
            }
        }
    }

    /// Returns Some(case) when this invocation is a replay of `sub`.
    pub fn replay_case<T: DeserializeOwned>(&self, sub: &str) -> Option<T> {
        match &self.replay {
            Some((s, v)) if s == sub => match serde_json::from_value::<T>(v.clone()) {
                Ok(t) => Some(t),
                Err(e) => {
                    eprintln!("replay case does not deserialize for sub {sub}: {e}");
                    std::process::exit(2)
                }
            },
            _ => None,
        }
    }

    /// Regression cases for manual sub-checks.
    pub fn regression_cases<T: DeserializeOwned>(&self, sub: &str) -> Vec<T> {
        if self.is_replay() {
            return Vec::new();
        }
        let mut out = Vec::new();
        for (_p, v) in self.committed_replays(sub) {
            if let Ok(t) = serde_json::from_value::<T>(v) {
                out.push(t);
                self.stats.lock().replays_run += 1;
            }
        }
        out
    }

    /// The standard proptest-driven sub-check: committed replays first, then
    /// `cases` generated cases; a failure is shrunk and written as a replay.
    pub fn sub<T, S>(&self, sub: &str, cases: u32, strat: S, check: impl Fn(&T, &CaseRec) -> Check)
    where
        T: Debug + Serialize + DeserializeOwned + 'static,
        S: Strategy<Value = T>,
    {
        if let Some((s, _)) = &self.replay {
            if s != sub {
                return;
            }
            let case: T = self.replay_case(sub).unwrap();
            let ok = self.run_one(sub, &case, &check);
            if ok {
                println!("replay: property={} sub={} PASS", self.prop, sub);
            }
            return;
        }
        for case in self.regression_cases::<T>(sub) {
            self.run_one(sub, &case, &check);
        }
        if cases == 0 {
            return;
        }
        let mut runner = TestRunner::new(self.config(sub, cases));
        let last_fail: Mutex<Option<Fail>> = Mutex::new(None);
        let result = runner.run(&strat, |case| {
            let v = serde_json::to_value(&case).unwrap_or(Value::Null);
            let rec = CaseRec::default();
            let res = guarded(|| check(&case, &rec));
            match self.record(sub, &v, &rec, &res) {
                Ok(()) => Ok(()),
                Err(f) => {
                    self.freeze();
                    let m = f.msg.clone();
                    *last_fail.lock() = Some(f);
                    Err(TestCaseError::fail(m))
                }
            }
        });
        self.unfreeze();
        match result {
            Ok(()) => {}
            Err(TestError::Fail(_reason, value)) => {
                // Re-run the minimal case to get its own signature/message.
                let v = serde_json::to_value(&value).unwrap_or(Value::Null);
                let rec = CaseRec::default();
                let res = guarded(|| check(&value, &rec));
                let f = match res {
                    Err(f) if !self.is_known(&f.signature) => f,
                    _ => last_fail
                        .lock()
                        .clone()
                        .unwrap_or_else(|| Fail::new("unknown", "failure did not reproduce")),
                };
                self.violation(sub, &v, &f);
            }
            Err(TestError::Abort(reason)) => {
                eprintln!("harness: proptest aborted in {sub}: {reason}");
                std::process::exit(2);
            }
        }
    }

    /// Draw `n` values from a strategy (for batch/async engines). Returns trees so a
    /// failing case can be shrunk with `shrink_tree`.
    pub fn draw<S: Strategy>(&self, sub: &str, n: usize, strat: &S) -> Vec<S::Tree> {
        let mut runner = TestRunner::new(self.config(sub, n as u32));
        (0..n)
            .map(|_| strat.new_tree(&mut runner).expect("strategy rejected"))
            .collect()
    }

    /// Shrink a failing tree with at most `max_runs` re-executions of `fails`.
    pub fn shrink_tree<VT: ValueTree>(
        &self,
        tree: &mut VT,
        max_runs: usize,
        mut fails: impl FnMut(&VT::Value) -> bool,
    ) -> VT::Value {
        self.freeze();
        let mut runs = 0;
        let mut best = tree.current();
        'outer: while runs < max_runs {
            if !tree.simplify() {
                break;
            }
            loop {
                let cur = tree.current();
                runs += 1;
                if fails(&cur) {
                    best = cur;
                    break;
                }
                if runs >= max_runs || !tree.complicate() {
                    break 'outer;
                }
            }
        }
        self.unfreeze();
        best
    }

    /// Batch engine for expensive real-time cases (network rigs): `cases` values are drawn from the
    /// seeded strategy, executed `conc` at a time as tokio tasks, judged in generation order; a failing
    /// case is re-run alone (timing clauses: three times, DESIGN 2.6) and then shrunk with a capped
    /// number of re-executions.
    pub fn sub_async<T, S>(
        &self,
        rt: &tokio::runtime::Runtime,
        sub: &str,
        cases: usize,
        conc: usize,
        strat: S,
        check: AsyncCheck<T>,
    ) where
        T: Debug + Clone + Serialize + DeserializeOwned + Send + 'static,
        S: Strategy<Value = T>,
    {
        let run_alone = |v: &T| -> (CaseRec, Check) {
            let before = panics::count();
            let (rec, mut res) = rt.block_on(check(v.clone()));
            if res.is_ok() {
                if let Some((loc, msg)) = panics::since(before).into_iter().next() {
                    res = Err(Fail::new(format!("panic@{}", loc), format!("panic in a task at {}: {}", loc, msg)));
                }
            }
            (rec, res)
        };
        let run_alone = |v: &T| -> (CaseRec, Check) {
            let t = Instant::now();
            let r = run_alone(v);
            if progress() {
                eprintln!(
                    "[solo] {:.2}s {}",
                    t.elapsed().as_secs_f64(),
                    match &r.1 {
                        Ok(()) => "ok".to_string(),
                        Err(f) => format!(
                            "FAIL {} timing={} :: {}",
                            f.signature,
                            f.timing,
                            f.msg.chars().take(1800).collect::<String>()
                        ),
                    }
                );
            }
            r
        };
        let judge_alone = |v: &T| -> Check {
            // timing failures must fail three times alone to count
            let mut last = Ok(());
            for _ in 0..3 {
                let (_r, res) = run_alone(v);
                match &res {
                    Ok(()) => return Ok(()),
                    Err(f) if !f.timing => return res,
                    Err(_) => last = res,
                }
            }
            last
        };
        if let Some((s, _)) = &self.replay {
            if s != sub {
                return;
            }
            let case: T = self.replay_case(sub).unwrap();
            let v = serde_json::to_value(&case).unwrap_or(Value::Null);
            let (rec, res) = run_alone(&case);
            let res = match res {
                Err(f) if f.timing => judge_alone(&case),
                r => r,
            };
            match self.record(sub, &v, &rec, &res) {
                Ok(()) => println!("replay: property={} sub={} PASS", self.prop, sub),
                Err(f) => self.violation(sub, &v, &f),
            }
            return;
        }
        for case in self.regression_cases::<T>(sub) {
            let v = serde_json::to_value(&case).unwrap_or(Value::Null);
            let (rec, res) = run_alone(&case);
            let res = match res {
                Err(f) if f.timing => judge_alone(&case),
                r => r,
            };
            if let Err(f) = self.record(sub, &v, &rec, &res) {
                self.violation(sub, &v, &f);
            }
        }
        if cases == 0 {
            return;
        }
        let mut trees = self.draw(sub, cases, &strat);
        let values: Vec<T> = trees.iter().map(|t| t.current()).collect();
        if let Ok(ix) = std::env::var("VERIF_ONLY_CASE") {
            // developer aid: run one generated case alone and print its verdict
            if let Some((s, i)) = ix.split_once(':') {
                if s == sub {
                    let i: usize = i.parse().unwrap_or(0);
                    println!("case {i} of {sub}: {}", serde_json::to_string(&values[i]).unwrap_or_default());
                    let reps: usize = std::env::var("VERIF_ONLY_REPEAT").ok().and_then(|x| x.parse().ok()).unwrap_or(1);
                    for k in 0..reps {
                        let (_r, res) = run_alone(&values[i]);
                        let txt = format!("{:?}", res);
                        println!("verdict[{k}]: {}", txt.chars().take(600).collect::<String>());
                    }
                }
            }
            return;
        }
        let before = panics::count();
        let results: Vec<(CaseRec, Check)> = rt.block_on(async {
            let sem = std::sync::Arc::new(tokio::sync::Semaphore::new(conc.max(1)));
            let mut handles = Vec::new();
            for v in values.iter().cloned() {
                let sem = sem.clone();
                let check = check.clone();
                let idx = handles.len();
                handles.push(tokio::spawn(async move {
                    let _p = sem.acquire_owned().await.unwrap();
                    let t = Instant::now();
                    let r = check(v).await;
                    if progress() {
                        eprintln!(
                            "[case {idx}] {:.2}s {}",
                            t.elapsed().as_secs_f64(),
                            match &r.1 {
                                Ok(()) => "ok".to_string(),
                                Err(f) => format!("FAIL {} timing={}", f.signature, f.timing),
                            }
                        );
                    }
                    r
                }));
            }
            let mut out = Vec::new();
            for h in handles {
                match h.await {
                    Ok(r) => out.push(r),
                    Err(e) => out.push((
                        CaseRec::default(),
                        Err(Fail::new("harness-task-panic", format!("case task failed: {e}"))),
                    )),
                }
            }
            out
        });
        let batch_panics = panics::since(before);
        let mut suspects: Vec<(Value, Fail)> = Vec::new();
        for (i, (rec, res)) in results.into_iter().enumerate() {
            let v = serde_json::to_value(&values[i]).unwrap_or(Value::Null);
            let res = match res {
                Err(f) if f.stall && !self.is_known(&f.signature) => {
                    // reproduce alone (up to 3 runs); otherwise keep it as a suspect
                    let mut again: Check = Ok(());
                    for _ in 0..3 {
                        again = run_alone(&values[i]).1;
                        if again.is_err() {
                            break;
                        }
                    }
                    match again {
                        Err(f2) => Err(f2),
                        Ok(()) => {
                            rec.inconclusive_timing();
                            suspects.push((v.clone(), f));
                            Ok(())
                        }
                    }
                }
                Err(f) if f.timing => {
                    let r = judge_alone(&values[i]);
                    if r.is_ok() {
                        rec.inconclusive_timing();
                    }
                    r
                }
                Err(f) if f.signature == "harness-task-panic" => {
                    // reproduce alone to attribute the panic
                    run_alone(&values[i]).1
                }
                r => r,
            };
            if let Err(f) = self.record(sub, &v, &rec, &res) {
                // shrink (capped), re-judging alone
                let sig = f.signature.clone();
                let cap = if f.timing { 6 } else { 40 };
                let minimal = self.shrink_tree(&mut trees[i], cap, |cand| match judge_alone(cand) {
                    Err(f2) => f2.signature == sig,
                    Ok(()) => false,
                });
                let mv = serde_json::to_value(&minimal).unwrap_or(Value::Null);
                let mf = match judge_alone(&minimal) {
                    Err(f2) => f2,
                    Ok(()) => f.clone(),
                };
                if mf.signature == sig {
                    self.violation(sub, &mv, &mf);
                } else {
                    self.violation(sub, &v, &f);
                }
                return;
            }
        }
        if !suspects.is_empty() {
            self.add_extra_count("unreproduced_stalls", suspects.len() as u64);
            if suspects.len() >= 3 {
                let (v, f) = &suspects[0];
                let f = Fail::new(
                    f.signature.clone(),
                    format!("{} distinct cases of this run stalled in the batch (none reproduced alone); first: {}", suspects.len(), f.msg),
                );
                self.violation(sub, v, &f);
                return;
            }
            for (_v, f) in &suspects {
                eprintln!(
                    "note: {} {}: one unreproduced stall ({}), counted as inconclusive",
                    self.prop, sub, f.signature
                );
            }
        }
        // a panic in some background task that no case attributed to itself
        if !batch_panics.is_empty() {
            let (loc, msg) = batch_panics[0].clone();
            let f = Fail::new(format!("panic@{}", loc), format!("panic in a background task during batch {sub}: {msg}"));
            if !self.is_known(&f.signature) {
                self.violation(sub, &json!({"batch_seed": self.seed, "note": "unattributed panic; re-run the batch"}), &f);
            } else {
                self.note_excluded(&f.signature, 1);
            }
        }
    }

    /// Write evidence and return the process exit code.
    pub fn finish(&self) -> i32 {
        let st = self.stats.lock();
        let wall = self.started.elapsed().as_secs_f64();
        if self.is_replay() {
            return if st.violations.is_empty() { 0 } else { 1 };
        }
        let mut coverage = serde_json::Map::new();
        coverage.insert("evaluations".into(), json!(st.evaluations));
        coverage.insert(
            "distinct_nontrivial".into(),
            json!(st.nontrivial.len() as u64 + st.bulk_nontrivial),
        );
        coverage.insert("rule".into(), json!(self.rule));
        coverage.insert("samples".into(), json!(st.samples));
        coverage.insert("classes".into(), json!(st.classes));
        coverage.insert("sub_checks".into(), json!(st.sub_evals));
        coverage.insert("excluded_known".into(), json!(st.excluded_known));
        coverage.insert("inconclusive_timing".into(), json!(st.inconclusive_timing));
        coverage.insert("regression_replays_run".into(), json!(st.replays_run));
        if let Some(e) = st.exhaustive {
            coverage.insert("exhaustive".into(), json!(e));
        }
        for (k, v) in &st.extra {
            coverage.insert(k.clone(), v.clone());
        }
        let ev = json!({
            "property_id": self.prop,
            "tier": self.tier.name(),
            "seed": self.seed,
            "level": self.level,
            "coverage": Value::Object(coverage),
            "assumptions": self.assumptions,
            "wall_s": (wall * 1000.0).round() / 1000.0,
            "violations": st.violations.len(),
        });
        let dir = Path::new(&verif_root()).join("evidence");
        let _ = std::fs::create_dir_all(&dir);
        let path = dir.join(format!("{}.json", self.prop));
        if let Err(e) = std::fs::write(&path, serde_json::to_string_pretty(&ev).unwrap()) {
            eprintln!("cannot write evidence: {e}");
            return 2;
        }
        println!(
            "{} tier={} seed={} evaluations={} distinct_nontrivial={} known_excluded={} inconclusive_timing={} violations={} wall={:.1}s",
            self.prop,
            self.tier.name(),
            self.seed,
            st.evaluations,
            st.nontrivial.len() as u64 + st.bulk_nontrivial,
            st.excluded_known.values().sum::<u64>(),
            st.inconclusive_timing,
            st.violations.len(),
            wall
        );
        if st.violations.is_empty() { 0 } else { 1 }
    }
}

fn truncate_sample(v: &mut Value) {
    match v {
        Value::Array(a) => {
            if a.len() > 48 {
                let n = a.len();
                a.truncate(48);
                a.push(json!(format!("... ({} items total)", n)));
            }
            for x in a.iter_mut() {
                truncate_sample(x);
            }
        }
        Value::Object(o) => {
            for (_k, x) in o.iter_mut() {
                truncate_sample(x);
            }
        }
        Value::String(s) => {
            if s.len() > 600 {
                let n = s.len();
                let mut cut = 600;
                while !s.is_char_boundary(cut) {
                    cut -= 1;
                }
                s.truncate(cut);
                s.push_str(&format!("... ({} bytes)", n));
            }
        }
        _ => {}
    }
}

/// Run a check, turning a panic in the code under test into a Fail whose
/// signature names the panic location.
pub fn guarded(f: impl FnOnce() -> Check) -> Check {
    let before = panics::count();
    match std::panic::catch_unwind(std::panic::AssertUnwindSafe(f)) {
        Ok(r) => r,
        Err(_) => {
            let p = panics::since(before).into_iter().next_back();
            let (loc, msg) = p.unwrap_or_else(|| ("?".into(), "panic".into()));
            Err(Fail::new(
                format!("panic@{}", loc),
                format!("panic at {}: {}", loc, msg),
            ))
        }
    }
}

/// Monotone index mapping for shrink-friendly selection.
pub fn pick(idx: u16, len: usize) -> usize {
    if len == 0 {
        return 0;
    }
    ((idx as usize) * len) >> 16
}

pub fn hex(b: &[u8]) -> String {
    let mut s = String::with_capacity(b.len() * 2);
    for x in b {
        s.push_str(&format!("{:02x}", x));
    }
    s
}

pub fn unhex(s: &str) -> Vec<u8> {
    (0..s.len() / 2)
        .map(|i| u8::from_str_radix(&s[2 * i..2 * i + 2], 16).unwrap_or(0))
        .collect()
}

/// serde helper: Vec<u8> as hex string (compact replay files).
pub mod hexbytes {
    use serde::{Deserialize, Deserializer, Serializer};
    pub fn serialize<S: Serializer>(b: &Vec<u8>, s: S) -> Result<S::Ok, S::Error> {
        s.serialize_str(&super::hex(b))
    }
    pub fn deserialize<'de, D: Deserializer<'de>>(d: D) -> Result<Vec<u8>, D::Error> {
        let s = String::deserialize(d)?;
        Ok(super::unhex(&s))
    }
}
