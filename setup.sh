#!/bin/sh
# Offline setup: build the harness (and fuzz/miri crates when present) from files on disk.
export CARGO_NET_OFFLINE=true
cd /verif/harness || exit 1
[ -f Cargo.lock ] || cp /repo/Cargo.lock Cargo.lock
cargo build --quiet || exit 1
if [ -x /verif/tools/setup_extra.sh ]; then /verif/tools/setup_extra.sh || exit 1; fi
echo "setup ok"
