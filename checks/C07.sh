#!/bin/bash
# C07 = live-endpoint PBT (harness module c07) + coverage-guided decoder fuzzing (c07fuzz).
# usage (via ./check): C07.sh [--tier quick|thorough] [--replay <file>]
TIER="${VERIF_TIER:-quick}"; REPLAY=""
while [ $# -gt 0 ]; do case "$1" in --tier) TIER="$2"; shift 2;; --replay) REPLAY="$2"; shift 2;; *) shift;; esac; done
SEED="${VERIF_SEED:-1}"; case "$SEED" in ''|*[!0-9]*) SEED=1;; esac
if [ -n "$REPLAY" ]; then
  case "$REPLAY" in
    *.json) exec /verif/target/debug/rtcverif run C07 --replay "$REPLAY" ;;
    *) t=$(basename "$REPLAY" | sed 's/^fuzz-\([a-z0-9_]*\)-.*/\1/'); exec /verif/c07fuzz/replay.sh "$t" "$REPLAY" ;;
  esac
fi
/verif/target/debug/rtcverif run C07 --tier "$TIER"; rc_live=$?
[ $rc_live -gt 1 ] && exit $rc_live
OUT=/verif/c07fuzz/out
C07_OUT="$OUT" C07_JOBS="${C07_JOBS:-16}" /verif/c07fuzz/run_fuzz.sh "$TIER" "$SEED" > "$OUT.log" 2>&1; rc_fuzz=$?
grep -E "^FUZZ-FINDING|^\[c07fuzz\] (mode|fuzzing)" "$OUT.log" | cut -c1-300
if [ $rc_fuzz -ge 2 ]; then echo "harness: fuzz driver trouble (see $OUT.log)" >&2; tail -5 "$OUT.log" >&2; exit 2; fi
python3 - "$OUT" "$rc_fuzz" <<'PY'
import json,sys,os,re,shutil,hashlib
out,rc=sys.argv[1],int(sys.argv[2])
evp='/verif/evidence/C07.json'
ev=json.load(open(evp))
stats={}
try: stats=json.load(open(os.path.join(out,'stats.json')))
except Exception: pass
cov=ev['coverage']
tot=0; per={}
items = stats.get('targets', stats) if isinstance(stats, dict) else {}
if isinstance(items, list): items={x.get('target','?'):x for x in items}
for t,s in (items.items() if isinstance(items,dict) else []):
    if isinstance(s,dict) and 'execs' in s:
        per[t]={k:s.get(k) for k in ('execs','cov','ft','corpus','accepted')}
        tot+=int(s.get('execs') or 0)
cov['fuzz_targets']=per; cov['fuzz_execs']=tot
cov['evaluations']=int(cov.get('evaluations',0))+tot
cov['rule']=cov.get('rule','')+' | fuzz half: 14 libFuzzer targets (ASan, debug assertions), fixed -runs per target from committed seed corpora; an exec is non-trivial when the decoder accepted the input (column accepted); distinct_nontrivial counts only the live half'
viol=0
log=open(out+'.log').read()
for m in re.finditer(r'^FUZZ-FINDING target=(\S+) kind=(\S+) signature=(\S+) file=(\S+)(.*)$', log, re.M):
    t,kind,sig,f,rest=m.groups()
    if '(listed)' in rest: continue
    os.makedirs('/verif/replays/C07',exist_ok=True)
    try: h=hashlib.sha1(open(f,'rb').read()).hexdigest()[:12]
    except Exception: h='unknown'
    dst=f'/verif/replays/C07/fuzz-{t}-{h}'
    try: shutil.copy(f,dst)
    except Exception: pass
    print(f'VIOLATION property=C07 replay={dst}'); print(f'  fuzz target={t} kind={kind} signature={sig}')
    viol+=1
ev['violations']=int(ev.get('violations',0))+viol
json.dump(ev,open(evp,'w'),indent=1)
sys.exit(1 if viol else 0)
PY
rc_py=$?
[ $rc_live -eq 1 ] && exit 1
exit $rc_py
