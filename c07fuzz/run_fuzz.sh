#!/usr/bin/env bash
# C07 coverage-guided half: build all libFuzzer targets once, run each from a fresh temp corpus seeded from
# fuzz/seeds/<target>, collect stats + artifacts, classify artifacts against the known-findings allow-list.
#
#   run_fuzz.sh quick    <seed>            fixed -runs per target, up to $C07_JOBS targets in parallel (~60-90 s)
#   run_fuzz.sh thorough <seed>            ~20x the runs, each target forked (-fork) and crash-tolerant
#   run_fuzz.sh timed    <seed> <seconds>  -max_total_time=<seconds> per target (exploration runs)
#
# env: C07_JOBS (parallel targets, default 16), C07_TARGETS ("a b c" subset), C07_RUNS (override -runs),
#      C07_KNOWN_FILES (space separated known_findings.json files; default: ./known_findings.json and
#      /verif/known_findings.json), C07_OUT (default ./out), C07_FORK (workers per target in thorough, default 4)
# exit: 0 no unlisted finding, 1 unlisted finding(s), 2 tool trouble.
set -u
HERE="$(cd "$(dirname "$0")" && pwd)"
MODE="${1:-}"; SEED="${2:-}"; SECS="${3:-300}"
case "$MODE" in quick|thorough|timed) ;; *) echo "usage: $0 <quick|thorough|timed> <seed> [seconds]" >&2; exit 2;; esac
[[ "$SEED" =~ ^[0-9]+$ ]] || { echo "seed must be a number" >&2; exit 2; }
export CARGO_INCREMENTAL=0 CARGO_NET_OFFLINE=true
# anyhow captures a backtrace per error when these are set: 10x slower decoders, nothing to do with the targets
unset RUST_BACKTRACE RUST_LIB_BACKTRACE
TD="$HERE/target"
BIN="$TD/x86_64-unknown-linux-gnu/release"
OUT="${C07_OUT:-$HERE/out}"
JOBS="${C07_JOBS:-16}"
ALL="rtp_packet rtcp_compound rtp_differential stun_decode dtls_record_stream dtls_bodies dcep sdp_parse ice_candidate sdp_small srtp_unprotect rtx_unwrap h264_depacketizer udptl_buffer"
TARGETS="${C07_TARGETS:-$ALL}"
LIMITS="-timeout=5 -rss_limit_mb=1024 -malloc_limit_mb=64 -max_len=65536 -len_control=0 -print_final_stats=1"

# quick-tier runs per target: sized so that each target needs 25-45 s of one core
runs_for() {
  case "$1" in
    sdp_parse) echo 60000;; srtp_unprotect) echo 150000;; udptl_buffer) echo 120000;; h264_depacketizer) echo 80000;;
    rtp_differential|stun_decode|rtp_packet) echo 300000;; sdp_small) echo 250000;; ice_candidate) echo 150000;;
    *) echo 400000;;
  esac
}

mkdir -p "$OUT" || exit 2
rm -rf "$OUT/artifacts" "$OUT/logs" "$OUT/stats.json"; mkdir -p "$OUT/artifacts" "$OUT/logs"

# ---- known signatures -------------------------------------------------------------------------------
KNOWN_FILES="${C07_KNOWN_FILES:-$HERE/known_findings.json /verif/known_findings.json}"
C07_KNOWN="$(python3 - $KNOWN_FILES <<'EOF'
import json, sys
seen = []
for f in sys.argv[1:]:
    try: d = json.load(open(f))
    except Exception: continue
    for e in d.get("findings", []):
        if isinstance(e, dict) and e.get("property") == "C07" and "|" in e.get("signature", "") and e["signature"] not in seen:
            seen.append(e["signature"])
print("\n".join(seen))
EOF
)"
export C07_KNOWN

# ---- build once -------------------------------------------------------------------------------------
echo "[c07fuzz] building targets (cargo +nightly fuzz build)"
( cd "$HERE" && cargo +nightly fuzz build --target-dir "$TD" ) > "$OUT/logs/build.log" 2>&1 || { tail -20 "$OUT/logs/build.log" >&2; echo "[c07fuzz] build failed" >&2; exit 2; }
for t in $TARGETS; do [ -x "$BIN/$t" ] || { echo "[c07fuzz] missing binary $t" >&2; exit 2; }; done

WORK="$(mktemp -d /tmp/c07fuzz-run.XXXXXX)" || exit 2
trap 'rm -rf "$WORK"' EXIT

run_one() {
  local t="$1" d="$WORK/$t" args
  mkdir -p "$d/corpus" "$d/art"
  cp "$HERE/fuzz/seeds/$t/"* "$d/corpus/" 2>/dev/null
  case "$MODE" in
    quick)    args="-runs=${C07_RUNS:-$(runs_for "$t")}";;
    thorough) args="-runs=$(( ${C07_RUNS:-$(runs_for "$t")} * 20 / ${C07_FORK:-4} )) -fork=${C07_FORK:-4} -ignore_crashes=1 -ignore_timeouts=1 -ignore_ooms=1";;
    timed)    args="-max_total_time=$SECS";;
  esac
  local t0=$(date +%s.%N)
  ( cd "$d" && "$BIN/$t" -seed="$SEED" $args $LIMITS -artifact_prefix="$d/art/" "$d/corpus" ) > "$OUT/logs/$t.log" 2>&1
  echo "$? $(echo "$(date +%s.%N) - $t0" | bc) $(ls "$d/corpus" | wc -l)" > "$d/exit"
  mkdir -p "$OUT/artifacts/$t"; cp "$d/art/"* "$OUT/artifacts/$t/" 2>/dev/null
  rmdir "$OUT/artifacts/$t" 2>/dev/null
  true
}

echo "[c07fuzz] mode=$MODE seed=$SEED jobs=$JOBS known=$(echo -n "$C07_KNOWN" | grep -c . )"
T0=$(date +%s)
running=0
for t in $TARGETS; do
  run_one "$t" &
  running=$((running+1))
  if [ "$running" -ge "$JOBS" ]; then wait -n; running=$((running-1)); fi
done
wait
echo "[c07fuzz] fuzzing took $(( $(date +%s) - T0 )) s"

# ---- classify artifacts: replay each in strict mode to obtain its signature --------------------------
FIND="$OUT/findings.txt"; : > "$FIND"
for t in $TARGETS; do
  [ -d "$OUT/artifacts/$t" ] || continue
  for f in "$OUT/artifacts/$t"/*; do
    [ -f "$f" ] || continue
    base="$(basename "$f")"; kind="${base%%-*}"
    case "$kind" in crash|timeout|oom) ;; leak) kind=crash;; *) continue;; esac
    rep="$(C07_STRICT=1 C07_STAGE_TRACE=1 timeout 60 "$BIN/$t" $LIMITS -runs=1 "$f" 2>&1)"
    sig="$(printf '%s\n' "$rep" | sed -n 's/^C07-SIGNATURE: //p' | head -1)"
    if [ -z "$sig" ]; then
      stage="$(printf '%s\n' "$rep" | sed -n 's/^C07-STAGE: //p' | tail -1)"
      case "$kind" in
        timeout) sig="$t|timeout@${stage:-?}";;
        oom)     sig="$t|oom@${stage:-?}";;
        *)       if printf '%s\n' "$rep" | grep -q 'AddressSanitizer'; then
                   sig="$t|asan:$(printf '%s\n' "$rep" | sed -n 's/.*AddressSanitizer: \([a-z-]*\).*/\1/p' | head -1)@${stage:-?}"
                 else sig="$t|crash-not-reproduced"; fi;;
      esac
    fi
    echo "$t $kind $sig $f" >> "$FIND"
  done
done

# ---- stats.json + verdict ---------------------------------------------------------------------------
python3 - "$OUT" "$WORK" "$MODE" "$SEED" $TARGETS <<'EOF'
import json, os, re, sys
out, work, mode, seed, targets = sys.argv[1], sys.argv[2], sys.argv[3], int(sys.argv[4]), sys.argv[5:]
known = [l for l in os.environ.get("C07_KNOWN", "").splitlines() if l.strip()]
stats, trouble = {}, []
for t in targets:
    log = open(os.path.join(out, "logs", t + ".log"), errors="replace").read()
    ex = open(os.path.join(work, t, "exit")).read().split()
    s = {"exit": int(ex[0]), "wall_s": round(float(ex[1]), 1), "corpus_files": int(ex[2])}
    m = re.findall(r"^#(\d+)\s+(?:DONE|NEW|REDUCE|pulse|INITED|RELOAD)\s+cov: (\d+) ft: (\d+) corp: (\d+)/(\S+)", log, re.M)
    if m:
        e, cov, ft, corp, size = m[-1]; s.update(execs=int(e), cov=int(cov), ft=int(ft), corpus=int(corp), corpus_size=size)
    m = re.findall(r"^#(\d+): cov: (\d+) ft: (\d+) corp: (\d+) exec/s:? \d+ oom/timeout/crash: (\d+)/(\d+)/(\d+)", log, re.M)
    if m:  # fork mode
        e, cov, ft, corp, o, to, c = m[-1]; s.update(execs=int(e), cov=int(cov), ft=int(ft), corpus=int(corp), ooms=int(o), timeouts=int(to), crashes=int(c))
    m = re.search(r"stat::number_of_executed_units:\s+(\d+)", log)
    if m: s["execs"] = int(m.group(1))
    m = re.search(r"stat::slowest_unit_time_sec:\s+(\d+)", log)
    if m: s["slowest_unit_s"] = int(m.group(1))
    m = re.search(r"stat::peak_rss_mb:\s+(\d+)", log)
    if m: s["peak_rss_mb"] = int(m.group(1))
    m = re.search(r"C07-STATS target=\S+ execs=(\d+) accepted=(\d+) known=(.*)", log)
    if m:
        s["accepted"] = int(m.group(2))
        s["known_hits"] = {k: int(v) for k, v in (kv.rsplit("=", 1) for kv in m.group(3).split(";") if "=" in kv)}
    stats[t] = s
findings, unlisted = [], 0
for line in open(os.path.join(out, "findings.txt")):
    t, kind, rest = line.rstrip("\n").split(" ", 2)
    sig, f = rest.rsplit(" ", 1)
    listed = sig in known
    unlisted += 0 if listed else 1
    findings.append({"target": t, "kind": kind, "signature": sig, "file": f, "listed": listed})
    print(f"FUZZ-FINDING target={t} kind={kind} signature={sig} file={f}" + (" (listed)" if listed else ""))
for t in targets:
    s = stats[t]
    has_art = any(x["target"] == t for x in findings)
    if s["exit"] != 0 and not has_art:
        trouble.append(f"{t}: exit {s['exit']} without an artifact")
    if ("execs" not in s or "cov" not in s) and not has_art:
        trouble.append(f"{t}: no libFuzzer stats line (exit {s['exit']})")
    for sig, n in s.get("known_hits", {}).items():
        print(f"KNOWN-FINDING: {sig} hit {n} times (tolerated)")
json.dump({"mode": mode, "seed": seed, "known": known, "targets": stats, "findings": findings, "trouble": trouble},
          open(os.path.join(out, "stats.json"), "w"), indent=1)
print("%-20s %9s %6s %6s %7s %9s %7s %8s" % ("target", "execs", "cov", "ft", "corpus", "accepted", "wall_s", "slowest"))
for t in targets:
    s = stats[t]
    print("%-20s %9s %6s %6s %7s %9s %7s %7ss" % (t, s.get("execs", "-"), s.get("cov", "-"), s.get("ft", "-"), s.get("corpus", "-"), s.get("accepted", "-"), s["wall_s"], s.get("slowest_unit_s", "-")))
for x in trouble: print("TOOL-TROUBLE:", x)
sys.exit(2 if trouble else (1 if unlisted else 0))
EOF
exit $?
