#![no_main]
//! SRTP / SRTCP receive path with fixed keys, all four profiles, through SrtpSession and SrtpContext.
//! Input: [sel][idx: 4 bytes][packet]. sel&3 = profile, (sel>>2)&3 = mode:
//!   0 raw bytes -> unprotect RTP          (an accept must be confirmed by the independent model)
//!   1 raw bytes -> unprotect RTCP         (same)
//!   2 bytes are a PLAIN RTP datagram: the independent RFC 3711/7714 model protects it (valid tag, so the
//!     post-authentication code is reached with arbitrary header/padding shapes) -> unprotect must give
//!     back exactly what RtpPacket::parse gives for the plain bytes (or refuse what that refuses)
//!   3 bytes are a PLAIN RTCP compound: model protects at index idx (E-bit = sel bit 4) -> unprotect must
//!     restore the plain bytes
use bytes::BytesMut;
use c07common::srtp_model::{Profile, Srtp};
use c07common::{accepted, guard, hex, oracle_fail, rtc};
use libfuzzer_sys::fuzz_target;
use rustrtc::rtp::{parse_rtcp_packets, RtpPacket};
use rustrtc::srtp::SrtpPacket;
use rustrtc::{SrtpContext, SrtpDirection, SrtpKeyingMaterial, SrtpProfile, SrtpSession};

const KEY: [u8; 16] = [0, 1, 2, 3, 4, 5, 6, 7, 8, 9, 10, 11, 12, 13, 14, 15];
const SALT: [u8; 14] = [16, 17, 18, 19, 20, 21, 22, 23, 24, 25, 26, 27, 28, 29];

fn profiles(i: u8) -> (SrtpProfile, Profile) {
    match i & 3 {
        0 => (SrtpProfile::Aes128Sha1_80, Profile::AesCm128HmacSha1_80),
        1 => (SrtpProfile::Aes128Sha1_32, Profile::AesCm128HmacSha1_32),
        2 => (SrtpProfile::AeadAes128Gcm, Profile::AeadAes128Gcm),
        _ => (SrtpProfile::NullCipherHmac, Profile::NullHmacSha1_80),
    }
}

fn keying(p: Profile) -> SrtpKeyingMaterial {
    SrtpKeyingMaterial::new(KEY.to_vec(), SALT[..p.salt_len()].to_vec())
}

fn session(p: SrtpProfile, m: Profile) -> SrtpSession {
    SrtpSession::new(p, keying(m), keying(m)).expect("session")
}

fn unprotect_rtp(s: &mut SrtpSession, wire: &[u8]) -> Option<Result<RtpPacket, String>> {
    let n = wire.len();
    let pkt = rtc("SrtpPacket::parse", n, || SrtpPacket::parse(BytesMut::from(wire))).ok()?;
    Some(rtc("SrtpSession::unprotect_rtp", n, || s.unprotect_rtp(pkt)).map_err(|e| format!("{e:?}")))
}

fuzz_target!(|data: &[u8]| {
    guard("srtp_unprotect", || {
        if data.len() < 5 {
            return;
        }
        let sel = data[0];
        let idx = u32::from_be_bytes([data[1], data[2], data[3], data[4]]) & 0x7fff_ffff;
        let body = &data[5..];
        let n = body.len();
        let (prof, mprof) = profiles(sel);
        let model = Srtp::new(mprof, &KEY, &SALT[..mprof.salt_len()]).expect("model");
        let mut sess = session(prof, mprof);
        match (sel >> 2) & 3 {
            0 => {
                // raw SRTP
                let r = unprotect_rtp(&mut sess, body);
                if let Some(Ok(p)) = &r {
                    accepted();
                    match model.unprotect_rtp(body, 0) {
                        Ok(plain) => {
                            if RtpPacket::parse(&plain).ok().as_ref() != Some(p) {
                                oracle_fail("srtp-raw-accept-differs-from-model", hex(body));
                            }
                        }
                        Err(e) => oracle_fail("srtp-accepts-what-model-rejects", format!("{e:?} on {}", hex(body))),
                    }
                }
                // same bytes straight into a context of the packet's SSRC, twice (replay / index update)
                if body.len() >= 12 {
                    let ssrc = u32::from_be_bytes([body[8], body[9], body[10], body[11]]);
                    if let Ok(mut ctx) = SrtpContext::new(ssrc, prof, keying(mprof), SrtpDirection::Receiver) {
                        for _ in 0..2 {
                            if let Ok(pk) = SrtpPacket::parse(BytesMut::from(body)) {
                                let _ = rtc("SrtpContext::unprotect", n, || ctx.unprotect(pk));
                            }
                        }
                    }
                }
            }
            1 => {
                let mut v = body.to_vec();
                let r = rtc("SrtpSession::unprotect_rtcp", n, || sess.unprotect_rtcp(&mut v));
                if r.is_ok() {
                    accepted();
                    match model.unprotect_rtcp(body) {
                        Ok(plain) => {
                            if plain.packet != v {
                                oracle_fail("srtcp-raw-accept-differs-from-model", hex(body));
                            }
                        }
                        Err(e) => {
                            // RFC 7714 9.3: an unencrypted (E=0) GCM SRTCP packet is all AAD; the model reads it,
                            // rustrtc decrypts regardless and so can only agree when E=1
                            oracle_fail("srtcp-accepts-what-model-rejects", format!("{e:?} on {}", hex(body)));
                        }
                    }
                    let _ = rtc("parse_rtcp_packets", v.len(), || parse_rtcp_packets(&v, None));
                } else if v.len() > n {
                    oracle_fail("srtcp-failed-unprotect-grew-packet", hex(body));
                }
                if body.len() >= 8 {
                    let ssrc = u32::from_be_bytes([body[4], body[5], body[6], body[7]]);
                    if let Ok(mut ctx) = SrtpContext::new(ssrc, prof, keying(mprof), SrtpDirection::Receiver) {
                        for _ in 0..2 {
                            let mut v = body.to_vec();
                            let _ = rtc("SrtpContext::unprotect_rtcp", n, || ctx.unprotect_rtcp(&mut v));
                        }
                    }
                }
            }
            2 => {
                // authentic SRTP around arbitrary plain bytes
                let Ok(wire) = model.protect_rtp(body, 0) else { return };
                let plain_parse = rtc("RtpPacket::parse", n, || RtpPacket::parse(body));
                let r = unprotect_rtp(&mut sess, &wire);
                let Some(r) = r else {
                    oracle_fail("srtp-header-parse-rejects-delimitable-packet", hex(body));
                    return;
                };
                accepted();
                // P bit with a zero pad count: the plain parser accepts it (padding_len 0), SRTP refuses it
                let zero_pad = body[0] & 0x20 != 0 && body.last() == Some(&0);
                match (&plain_parse, &r) {
                    (Ok(p), Ok(q)) => {
                        if p != q {
                            oracle_fail("srtp-unprotect-differs-from-plain-parse", format!("{} : {:?} vs {:?}", hex(body), p, q));
                        }
                    }
                    (Err(_), Err(_)) => {}
                    (Ok(_), Err(e)) => {
                        if !zero_pad {
                            oracle_fail("srtp-rejects-authentic-packet", format!("{e} on plain {}", hex(body)));
                        }
                    }
                    (Err(e), Ok(q)) => oracle_fail("srtp-accepts-what-plain-parse-rejects", format!("{e:?} vs {:?} on {}", q, hex(body))),
                }
                // replay of the same datagram and a second packet of the same source must stay total
                let _ = unprotect_rtp(&mut sess, &wire);
                // send side on the parsed packet (what a relay does): agrees with the model byte for byte
                if let Ok(p) = &plain_parse {
                    if let Ok(canon) = p.marshal() {
                        let mut tx = session(prof, mprof);
                        let mut out = vec![0u8; rtc("protected_rtp_len", n, || tx.protected_rtp_len(p))];
                        if rtc("SrtpSession::protect_rtp", n, || tx.protect_rtp(p, &mut out)).is_ok() {
                            if Some(&out) != model.protect_rtp(&canon, 0).ok().as_ref() {
                                oracle_fail("srtp-protect-differs-from-model", hex(body));
                            }
                        }
                    }
                }
            }
            _ => {
                if body.len() < 8 {
                    return;
                }
                let encrypt = sel & 0x10 != 0 || mprof.is_aead();
                let Ok(wire) = model.protect_rtcp(body, idx, encrypt) else { return };
                let mut v = wire.clone();
                match rtc("SrtpSession::unprotect_rtcp", wire.len(), || sess.unprotect_rtcp(&mut v)) {
                    Ok(()) => {
                        accepted();
                        if v != body {
                            oracle_fail("srtcp-unprotect-differs-from-plain", format!("{} -> {}", hex(body), hex(&v)));
                        }
                    }
                    Err(e) => oracle_fail("srtcp-rejects-authentic-packet", format!("{e} idx {idx} E {encrypt} plain {}", hex(body))),
                }
                let _ = rtc("parse_rtcp_packets", v.len(), || parse_rtcp_packets(&v, None));
                // replay
                let mut v2 = wire.clone();
                let _ = rtc("SrtpSession::unprotect_rtcp(replay)", wire.len(), || sess.unprotect_rtcp(&mut v2));
                // send side: rustrtc protects the plain bytes, the model reads them back
                let mut tx = session(prof, mprof);
                let mut w = body.to_vec();
                if rtc("SrtpSession::protect_rtcp", n, || tx.protect_rtcp(&mut w)).is_ok() {
                    match model.unprotect_rtcp(&w) {
                        Ok(pl) => {
                            if pl.packet != body {
                                oracle_fail("srtcp-protect-model-reads-other-bytes", hex(body));
                            }
                        }
                        Err(e) => oracle_fail("srtcp-protect-model-rejects", format!("{e:?} on {}", hex(body))),
                    }
                }
            }
        }
    });
});
