#![no_main]
//! A datagram as the DTLS transport sees it: DtlsRecord::decode in a loop, HandshakeMessage::decode loop on
//! every type-22 record, and the body decoder of each unfragmented handshake message.
//! Input: [mode][rest]. mode bit0 = 0: `rest` is the datagram. mode bit0 = 1: `rest` is decoded with
//! `arbitrary::Unstructured` into a list of (content type, epoch, seq, [handshake type, message_seq, fragment
//! offset], body) and framed with CONSISTENT length fields, so that mutations of a body keep reaching the body
//! decoders instead of dying at the three nested length checks.
//! Oracles: progress (every decoded record/message consumes >= header bytes), lengths consistent with the
//! input, encode(decode(x)) == the consumed bytes for records, and for handshake messages whose length
//! field equals the fragment length.
use bytes::{Bytes, BytesMut};
use c07common::{accepted, guard, hex, oracle_fail, rtc};
use libfuzzer_sys::fuzz_target;
use rustrtc::transports::dtls::handshake::*;
use rustrtc::transports::dtls::record::{ContentType, DtlsRecord};

fn bodies(t: HandshakeType, body: &Bytes, n: usize) {
    let mut b = body.clone();
    match t {
        HandshakeType::ClientHello => {
            let _ = rtc("ClientHello::decode", n, || ClientHello::decode(&mut b));
        }
        HandshakeType::ServerHello => {
            let _ = rtc("ServerHello::decode", n, || ServerHello::decode(&mut b));
        }
        HandshakeType::HelloVerifyRequest => {
            let _ = rtc("HelloVerifyRequest::decode", n, || HelloVerifyRequest::decode(&mut b));
        }
        HandshakeType::Certificate => {
            let _ = rtc("CertificateMessage::decode", n, || CertificateMessage::decode(&mut b));
        }
        HandshakeType::ServerKeyExchange => {
            let _ = rtc("ServerKeyExchange::decode", n, || ServerKeyExchange::decode(&mut b));
        }
        HandshakeType::ClientKeyExchange => {
            let _ = rtc("ClientKeyExchange::decode", n, || ClientKeyExchange::decode(&mut b));
        }
        HandshakeType::Finished => {
            let _ = rtc("Finished::decode", n, || Finished::decode(&mut b));
        }
        _ => {}
    }
    if b.len() > body.len() {
        oracle_fail("dtls-body-decoder-grew-buffer", "");
    }
}

fn frame(rest: &[u8]) -> Vec<u8> {
    let mut u = arbitrary::Unstructured::new(rest);
    let mut out = Vec::new();
    let mut records = 0;
    while !u.is_empty() && out.len() < 16384 && records < 12 {
        records += 1;
        let sel: u8 = u.arbitrary().unwrap_or(0);
        let ct = match sel & 7 {
            0..=3 => 22u8,
            4 => 20,
            5 => 21,
            6 => 23,
            _ => 24,
        };
        let epoch = (sel >> 3 & 1) as u16;
        let seq: u8 = u.arbitrary().unwrap_or(0);
        let blen = u.int_in_range(0..=600usize).unwrap_or(0).min(u.len());
        let mut payload = Vec::new();
        if ct == 22 {
            let ht: u8 = u.arbitrary().unwrap_or(1);
            // mostly real handshake types
            let ht = if sel & 0x80 == 0 { [1u8, 2, 3, 11, 12, 16, 20, 14, 13, 15, 0][(ht % 11) as usize] } else { ht };
            let mseq: u8 = u.arbitrary().unwrap_or(0);
            let body = u.bytes(blen.min(u.len())).unwrap_or(&[]);
            let (total, off) = if sel & 0x40 != 0 { (body.len() as u32 + 7, 3u32) } else { (body.len() as u32, 0) };
            payload.push(ht);
            payload.extend_from_slice(&total.to_be_bytes()[1..]);
            payload.extend_from_slice(&(mseq as u16).to_be_bytes());
            payload.extend_from_slice(&off.to_be_bytes()[1..]);
            payload.extend_from_slice(&(body.len() as u32).to_be_bytes()[1..]);
            payload.extend_from_slice(body);
        } else {
            payload.extend_from_slice(u.bytes(blen.min(u.len())).unwrap_or(&[]));
        }
        out.push(ct);
        out.extend_from_slice(&[254, 253]);
        out.extend_from_slice(&epoch.to_be_bytes());
        out.extend_from_slice(&[0, 0, 0, 0, 0, seq]);
        out.extend_from_slice(&(payload.len() as u16).to_be_bytes());
        out.extend_from_slice(&payload);
    }
    out
}

fuzz_target!(|data: &[u8]| {
    guard("dtls_record_stream", || {
        if data.is_empty() {
            return;
        }
        let framed;
        let data: &[u8] = if data[0] & 1 == 1 {
            framed = frame(&data[1..]);
            &framed
        } else {
            &data[1..]
        };
        let n = data.len();
        let mut buf = Bytes::copy_from_slice(data);
        let mut records = 0usize;
        loop {
            let before = buf.clone();
            let rec = match rtc("DtlsRecord::decode", n, || DtlsRecord::decode(&mut buf)) {
                Ok(Some(r)) => r,
                Ok(None) => {
                    if buf.len() != before.len() {
                        oracle_fail("dtls-record-none-but-consumed", hex(data));
                    }
                    break;
                }
                Err(_) => break,
            };
            records += 1;
            let consumed = before.len() - buf.len();
            if consumed != DtlsRecord::HEADER_SIZE + rec.payload.len() {
                oracle_fail("dtls-record-consumed-mismatch", format!("consumed {} payload {} on {}", consumed, rec.payload.len(), hex(data)));
                return;
            }
            if rec.sequence_number >> 48 != 0 {
                oracle_fail("dtls-record-seq-wider-than-48-bits", hex(data));
            }
            let mut out = BytesMut::new();
            rtc("DtlsRecord::encode", n, || rec.encode(&mut out));
            if out[..] != before[..consumed] {
                oracle_fail("dtls-record-reencode-differs", format!("{} vs {}", hex(&before[..consumed]), hex(&out)));
                return;
            }
            if rec.content_type == ContentType::Handshake {
                let mut body = rec.payload.clone();
                loop {
                    let hb = body.clone();
                    let msg = match rtc("HandshakeMessage::decode", n, || HandshakeMessage::decode(&mut body)) {
                        Ok(Some(m)) => m,
                        Ok(None) => {
                            if body.len() != hb.len() {
                                oracle_fail("dtls-handshake-none-but-consumed", hex(data));
                            }
                            break;
                        }
                        Err(_) => break,
                    };
                    accepted();
                    let used = hb.len() - body.len();
                    if used != HandshakeMessage::HEADER_SIZE + msg.body.len() || msg.body.len() != msg.fragment_length as usize {
                        oracle_fail("dtls-handshake-consumed-mismatch", hex(data));
                        return;
                    }
                    if msg.total_length as usize == msg.body.len() {
                        let mut out = BytesMut::new();
                        rtc("HandshakeMessage::encode", n, || msg.encode(&mut out));
                        if out[..] != hb[..used] {
                            oracle_fail("dtls-handshake-reencode-differs", format!("{} vs {}", hex(&hb[..used]), hex(&out)));
                            return;
                        }
                        if msg.fragment_offset == 0 {
                            bodies(msg.msg_type, &msg.body, n);
                        }
                    }
                }
            }
            if records > n / DtlsRecord::HEADER_SIZE + 1 {
                oracle_fail("dtls-record-loop-no-progress", hex(data));
                return;
            }
        }
    });
});
