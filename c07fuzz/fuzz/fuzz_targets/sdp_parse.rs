#![no_main]
//! SessionDescription::parse -> to_sdp_string -> re-parse, plus every public helper that takes a parsed
//! description or SDP text. Input: [selector byte][SDP text].
use c07common::{accepted, clip, guard, oracle_fail, rtc};
use libfuzzer_sys::fuzz_target;
use rustrtc::sdp::{modify_sdp_direction, parse_bundle_mid_info, Attribute, MediaSection, SdpType, SessionDescription};

const TRANSPORT_KEYS: [&str; 5] = ["ice-ufrag", "ice-pwd", "fingerprint", "setup", "candidate"];

/// What `to_sdp_string` is documented to do to a media section: transport attributes first (stable).
fn canonical(d: &SessionDescription) -> SessionDescription {
    let mut d = d.clone();
    for m in &mut d.media_sections {
        let (t, o): (Vec<Attribute>, Vec<Attribute>) = m.attributes.iter().cloned().partition(|a| TRANSPORT_KEYS.contains(&a.key.as_str()));
        m.attributes = t.into_iter().chain(o).collect();
    }
    d
}

fn helpers(d: &SessionDescription, n: usize) {
    let v = rtc("to_video_capabilities", n, || d.to_video_capabilities());
    let a = rtc("to_audio_capabilities", n, || d.to_audio_capabilities());
    let i = rtc("to_image_capabilities", n, || d.to_image_capabilities());
    let formats: usize = d.media_sections.iter().map(|m| m.formats.len()).sum();
    if v.len() + a.len() + i.len() > formats {
        oracle_fail("sdp-more-capabilities-than-formats", format!("{} caps from {} formats", v.len() + a.len() + i.len(), formats));
    }
    let _ = rtc("dtls_fingerprint", n, || d.dtls_fingerprint());
    let _ = rtc("first_sections", n, || (d.first_audio_section().is_some(), d.first_video_section().is_some(), d.first_image_section().is_some()));
    for m in &d.media_sections {
        let c = rtc("get_crypto_attributes", n, || m.get_crypto_attributes());
        if c.len() > m.attributes.len() {
            oracle_fail("sdp-more-crypto-than-attributes", "");
        }
        let map = rtc("extract_rtx_apt_map_from_attrs", n, || rustrtc::rtx::extract_rtx_apt_map_from_attrs(&m.attributes));
        for (rtx_pt, primary) in &map {
            if rtc("rtx_pt_for_primary", n, || rustrtc::rtx::rtx_pt_for_primary(&map, *primary)).is_none() {
                oracle_fail("sdp-apt-map-not-invertible", format!("{rtx_pt}->{primary}"));
            }
        }
        let _ = rtc("get_extmap_id", n, || (m.get_extmap_id(rustrtc::sdp::SDES_MID_URI), m.get_extmap_id(rustrtc::sdp::ABS_SEND_TIME_URI)));
        let _ = rtc("MediaSection::to_*_capabilities", n, || (m.to_video_capabilities().len(), m.to_audio_capabilities().len(), m.to_image_capabilities().len()));
    }
}

fuzz_target!(|data: &[u8]| {
    guard("sdp_parse", || {
        if data.is_empty() {
            return;
        }
        let sel = data[0];
        let text = String::from_utf8_lossy(&data[1..]).into_owned();
        let n = text.len();
        let ty = [SdpType::Offer, SdpType::Answer, SdpType::Pranswer, SdpType::Rollback][(sel & 3) as usize];
        let dir = ["sendrecv", "sendonly", "recvonly", "inactive"][((sel >> 2) & 3) as usize];

        // helpers on raw text (used on remote SDP before / without a full parse)
        let _ = rtc("parse_bundle_mid_info", n, || parse_bundle_mid_info(&text));
        let once = rtc("modify_sdp_direction", n, || modify_sdp_direction(&text, dir));
        let twice = rtc("modify_sdp_direction(2)", once.len(), || modify_sdp_direction(&once, dir));
        // idempotent up to trailing line terminators (lines() + join drops one trailing empty line per pass)
        let tr = |s: &str| s.trim_end_matches(['\r', '\n']).to_string();
        if tr(&once) != tr(&twice) {
            oracle_fail("sdp-modify-direction-not-idempotent", format!("{:?}", clip(&text, 200)));
        }

        let d = match rtc("SessionDescription::parse", n, || SessionDescription::parse(ty, &text)) {
            Ok(d) => d,
            Err(_) => return,
        };
        accepted();
        helpers(&d, n);

        // the direction rewrite of an acceptable SDP stays acceptable
        if rtc("SessionDescription::parse(modified)", once.len(), || SessionDescription::parse(ty, &once)).is_err() {
            oracle_fail("sdp-modified-direction-unparseable", format!("{:?}", clip(&text, 300)));
        }

        let s1 = rtc("to_sdp_string", n, || d.to_sdp_string());
        let d2 = match rtc("SessionDescription::parse(2)", s1.len(), || SessionDescription::parse(ty, &s1)) {
            Ok(d2) => d2,
            Err(e) => {
                oracle_fail("sdp-serialised-unparseable", format!("{e:?} for {:?}", clip(&s1, 300)));
                return;
            }
        };
        // lines with a prefix other than v/o/s/t/c/a/m are kept as `a=<prefix>:<value>`; when the prefix itself
        // contains ':' that spelling is ambiguous (garbage in): not compared
        let ambiguous = d.session.attributes.iter().any(|a| a.key.contains(':'));
        if !ambiguous {
            if d2 != canonical(&d) {
                let which = if d2.session != d.session {
                    "session".to_string()
                } else {
                    let c = canonical(&d);
                    let i = d2.media_sections.iter().zip(c.media_sections.iter()).position(|(x, y)| x != y);
                    format!("media {:?}: {:?} vs {:?}", i, i.map(|i| &d2.media_sections[i]), i.map(|i| &c.media_sections[i]))
                };
                oracle_fail("sdp-reparse-differs", format!("{which} from {:?}", clip(&text, 300)));
                return;
            }
            let s2 = rtc("to_sdp_string(2)", s1.len(), || d2.to_sdp_string());
            if s1 != s2 {
                oracle_fail("sdp-serialisation-not-fixed-point", format!("{:?}", clip(&s1, 300)));
            }
        }
        helpers(&d2, s1.len());

        // operations the stack applies to a parsed description before answering
        let mut d3 = d.clone();
        rtc("add_candidates", n, || d3.add_candidates(&["1 1 udp 2130706431 127.0.0.1 9 typ host".to_string()]));
        let cfg = rustrtc::RtcConfiguration::default();
        for m in &mut d3.media_sections {
            rtc("apply_config", n, || m.apply_config(&cfg));
        }
        let s3 = rtc("to_sdp_string(3)", n, || d3.to_sdp_string());
        let _ = MediaSection::new(rustrtc::MediaKind::Audio, "0");
        if rtc("SessionDescription::parse(3)", s3.len(), || SessionDescription::parse(ty, &s3)).is_err() {
            oracle_fail("sdp-after-apply-config-unparseable", format!("{:?}", clip(&s3, 300)));
        }
    });
});
