#![no_main]
//! The small public SDP value parsers: Simulcast, Rid, CryptoAttribute, SdpFingerprint, Origin, Timing,
//! Attribute::from_line, parse_apt, extract_rtx_apt_map. Input: [selector][text].
use c07common::{accepted, clip, guard, oracle_fail, rtc};
use libfuzzer_sys::fuzz_target;
use rustrtc::sdp::{Attribute, CryptoAttribute, Origin, Rid, SdpFingerprint, Simulcast, Timing};

fuzz_target!(|data: &[u8]| {
    guard("sdp_small", || {
        if data.is_empty() {
            return;
        }
        let text = String::from_utf8_lossy(&data[1..]).into_owned();
        let n = text.len();
        let t = clip(&text, 200);
        match data[0] % 8 {
            0 => {
                if let Some(s) = rtc("Simulcast::parse", n, || Simulcast::parse(&text)) {
                    accepted();
                    if s.send.is_empty() && s.recv.is_empty() {
                        oracle_fail("simulcast-empty-some", format!("{t:?}"));
                    }
                    let total: usize = s.send.iter().chain(s.recv.iter()).map(|x| x.len() + 1).sum();
                    if total > n + 1 {
                        oracle_fail("simulcast-longer-than-input", format!("{t:?}"));
                    }
                    // the canonical spelling parses to the same value
                    let mut c = String::new();
                    if !s.send.is_empty() {
                        c.push_str(&format!("send {}", s.send.join(";")));
                    }
                    if !s.recv.is_empty() {
                        if !c.is_empty() {
                            c.push(' ');
                        }
                        c.push_str(&format!("recv {}", s.recv.join(";")));
                    }
                    // an id equal to the keyword itself cannot be spelled back
                    let kw = s.send.iter().chain(s.recv.iter()).any(|x| x == "send" || x == "recv" || x.is_empty());
                    if !kw && Simulcast::parse(&c).as_ref() != Some(&s) {
                        oracle_fail("simulcast-canonical-differs", format!("{t:?} -> {:?} -> {c:?}", s));
                    }
                }
            }
            1 => {
                if let Some(r) = rtc("Rid::parse", n, || Rid::parse(&text)) {
                    accepted();
                    let dir = match r.direction {
                        rustrtc::Direction::SendOnly => "sendonly",
                        rustrtc::Direction::RecvOnly => "recvonly",
                        rustrtc::Direction::SendRecv => "sendrecv",
                        rustrtc::Direction::Inactive => "inactive",
                    };
                    let params: Vec<String> = r.params.iter().map(|(k, v)| if v.is_empty() && !k.is_empty() { k.clone() } else { format!("{k}={v}") }).collect();
                    let c = if params.is_empty() { format!("{} {}", r.id, dir) } else { format!("{} {} {}", r.id, dir, params.join(";")) };
                    // "k=" (empty value spelled with '=') and "k" parse to the same pair: canonical form is "k"
                    if Rid::parse(&c).as_ref() != Some(&r) {
                        oracle_fail("rid-canonical-differs", format!("{t:?} -> {:?} -> {c:?}", r));
                    }
                }
            }
            2 => {
                if let Some(c) = rtc("CryptoAttribute::parse", n, || CryptoAttribute::parse(&text)) {
                    accepted();
                    let s = match &c.session_params {
                        Some(p) => format!("{} {} {} {}", c.tag, c.crypto_suite, c.key_params, p),
                        None => format!("{} {} {}", c.tag, c.crypto_suite, c.key_params),
                    };
                    if CryptoAttribute::parse(&s).as_ref() != Some(&c) {
                        oracle_fail("crypto-canonical-differs", format!("{t:?} -> {:?} -> {s:?}", c));
                    }
                }
            }
            3 => {
                if let Ok(f) = rtc("SdpFingerprint::parse", n, || SdpFingerprint::parse(&text)) {
                    accepted();
                    let s = format!("{} {}", f.algorithm, f.value);
                    match SdpFingerprint::parse(&s) {
                        Ok(f2) if f2 == f => {}
                        other => oracle_fail("fingerprint-canonical-differs", format!("{t:?} -> {:?} -> {:?}", f, other)),
                    }
                    let hexdigits = f.value.chars().filter(|c| *c != ':').count();
                    if hexdigits % 2 != 0 || f.value.len() != hexdigits + hexdigits / 2 - 1 {
                        oracle_fail("fingerprint-not-normalised", format!("{t:?} -> {:?}", f));
                    }
                }
            }
            4 => {
                if let Ok(o) = rtc("Origin::parse", n, || Origin::parse(&text)) {
                    accepted();
                    if o.username.len() + o.unicast_address.len() > n {
                        oracle_fail("origin-longer-than-input", format!("{t:?}"));
                    }
                }
                if rtc("Timing::parse", n, || Timing::parse(&text)).is_ok() {
                    accepted();
                }
            }
            5 => {
                let a = rtc("Attribute::from_line", n, || Attribute::from_line(&text));
                accepted();
                let back = match &a.value {
                    Some(v) => format!("{}:{}", a.key, v),
                    None => a.key.clone(),
                };
                if back != text {
                    oracle_fail("attribute-from-line-lossy", format!("{t:?} -> {:?}", a));
                }
            }
            6 => {
                if let Some(pt) = rtc("parse_apt", n, || rustrtc::rtx::parse_apt(&text)) {
                    accepted();
                    if rustrtc::rtx::parse_apt(&format!("apt={pt}")) != Some(pt) {
                        oracle_fail("apt-canonical-differs", format!("{t:?}"));
                    }
                }
            }
            _ => {
                // attribute list built from lines "key:value"
                let attrs: Vec<(String, Option<String>)> = text
                    .lines()
                    .map(|l| match l.split_once(':') {
                        Some((k, v)) => (k.to_string(), Some(v.to_string())),
                        None => (l.to_string(), None),
                    })
                    .collect();
                let m = rtc("extract_rtx_apt_map", n, || rustrtc::rtx::extract_rtx_apt_map(&attrs));
                if !m.is_empty() {
                    accepted();
                }
                if m.len() > attrs.len() {
                    oracle_fail("apt-map-larger-than-attributes", format!("{t:?}"));
                }
                let used: Vec<u8> = m.keys().copied().collect();
                if let Some(pt) = rtc("allocate_rtx_payload_type", n, || rustrtc::rtx::allocate_rtx_payload_type(&used)) {
                    if used.contains(&pt) || !(96..=127).contains(&pt) {
                        oracle_fail("rtx-allocated-pt-in-use", format!("{pt}"));
                    }
                }
            }
        }
    });
});
