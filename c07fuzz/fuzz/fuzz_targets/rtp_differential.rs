#![no_main]
//! Same bytes to rustrtc and to the webrtc-rs `rtp` / `rtcp` crates; fields compared when both accept.
//! Demultiplexed like the stack does (second byte 192..=208 -> RTCP).
use bytes::Bytes;
use c07common::{accepted, guard, hex, oracle_fail, reference, rtc};
use libfuzzer_sys::fuzz_target;
use rustrtc::rtp::{is_rtcp, parse_rtcp_packets, ReportBlock, RtcpPacket, RtpPacket};
use webrtc_util::marshal::Unmarshal;

/// Is the one-byte / two-byte header-extension block well formed (elements tile the block, no reserved id)?
/// Only then does the reference delimit header and payload correctly (it reads elements past the block end
/// and stops consuming at id 15), so only then are extension elements and payload comparable.
fn block_ok(profile: u16, d: &[u8]) -> bool {
    let mut o = 0;
    match profile {
        0xBEDE => {
            while o < d.len() {
                let b = d[o];
                o += 1;
                if b == 0 {
                    continue;
                }
                if b >> 4 == 15 {
                    return false;
                }
                o += (b & 15) as usize + 1;
                if o > d.len() {
                    return false;
                }
            }
            true
        }
        0x1000 => {
            while o < d.len() {
                let b = d[o];
                o += 1;
                if b == 0 {
                    continue;
                }
                if o >= d.len() {
                    return false;
                }
                o += 1 + d[o] as usize;
                if o > d.len() {
                    return false;
                }
            }
            true
        }
        _ => true,
    }
}

fn diff_rtp(data: &[u8]) {
    let n = data.len();
    let ours = rtc("RtpPacket::parse", n, || RtpPacket::parse(data));
    let theirs = reference(|| {
        let mut b = Bytes::copy_from_slice(data);
        rtp::packet::Packet::unmarshal(&mut b)
    });
    let (p, r) = match (ours, theirs) {
        (Ok(p), Some(Ok(r))) => (p, r),
        _ => return,
    };
    accepted();
    let h = &p.header;
    let rh = &r.header;
    macro_rules! eqf {
        ($a:expr, $b:expr, $n:expr) => {
            if ($a) != ($b) {
                oracle_fail(concat!("rtp-diff-", $n), format!("rustrtc {:?} vs reference {:?} on {}", $a, $b, hex(data)));
                return;
            }
        };
    }
    eqf!(h.marker, rh.marker, "marker");
    eqf!(h.payload_type, rh.payload_type, "pt");
    eqf!(h.sequence_number, rh.sequence_number, "seq");
    eqf!(h.timestamp, rh.timestamp, "ts");
    eqf!(h.ssrc, rh.ssrc, "ssrc");
    eqf!(h.csrcs, rh.csrc, "csrc");
    eqf!(h.extension.is_some(), rh.extension, "xbit");
    let mut comparable = true;
    if let Some(e) = &h.extension {
        eqf!(e.profile, rh.extension_profile, "ext-profile");
        comparable = block_ok(e.profile, &e.data);
        if comparable {
            if e.profile == 0xBEDE || e.profile == 0x1000 {
                for x in &rh.extensions {
                    let first = rh.extensions.iter().find(|y| y.id == x.id).unwrap();
                    let got = h.get_extension(x.id);
                    if got.as_ref() != Some(&first.payload) {
                        oracle_fail("rtp-diff-ext-element", format!("id {}: rustrtc {:?} vs reference {:?} on {}", x.id, got, first.payload, hex(data)));
                        return;
                    }
                }
                // and nothing the reference does not see
                for id in 1..=255u8 {
                    if h.get_extension(id).is_some() && !rh.extensions.iter().any(|x| x.id == id) {
                        oracle_fail("rtp-diff-ext-extra", format!("id {id} only in rustrtc on {}", hex(data)));
                        return;
                    }
                }
            } else {
                eqf!(rh.extensions.len(), 1usize, "raw-ext-count");
                eqf!(e.data, rh.extensions[0].payload, "raw-ext-data");
            }
        }
    }
    if comparable {
        eqf!(p.payload, r.payload, "payload");
    }
}

fn rb_eq(a: &ReportBlock, b: &rtcp::reception_report::ReceptionReport) -> bool {
    a.ssrc == b.ssrc
        && a.fraction_lost == b.fraction_lost
        && (a.packets_lost as u32 & 0x00ff_ffff) == (b.total_lost & 0x00ff_ffff)
        && a.highest_sequence == b.last_sequence_number
        && a.jitter == b.jitter
        && a.last_sender_report == b.last_sender_report
        && a.delay_since_last_sender_report == b.delay
}

/// own framing walk: (packet type, has padding bit) of each sub-packet
fn walk(data: &[u8]) -> Vec<(u8, bool, usize, usize)> {
    let mut v = Vec::new();
    let mut o = 0;
    while o + 4 <= data.len() {
        let len = (u16::from_be_bytes([data[o + 2], data[o + 3]]) as usize + 1) * 4;
        if o + len > data.len() {
            break;
        }
        v.push((data[o + 1], data[o] & 0x20 != 0, o, len));
        o += len;
    }
    v
}

fn diff_rtcp(data: &[u8]) {
    let n = data.len();
    let ours = rtc("parse_rtcp_packets", n, || parse_rtcp_packets(data, None));
    let theirs = reference(|| {
        let mut b = Bytes::copy_from_slice(data);
        rtcp::packet::unmarshal(&mut b)
    });
    let (ours, theirs) = match (ours, theirs) {
        (Ok(p), Some(Ok(r))) => (p, r),
        _ => return,
    };
    let frames = walk(data);
    // the reference does not strip RTCP padding, and it ignores trailing bytes differently
    if frames.iter().any(|f| f.1) || frames.iter().map(|f| f.3).sum::<usize>() != n {
        return;
    }
    // keep what both decode: rustrtc skips XR / unknown types, the reference returns them as raw / XR packets
    let known = |pt: u8| matches!(pt, 200 | 201 | 202 | 203 | 205 | 206);
    let theirs: Vec<_> = theirs.iter().zip(frames.iter()).filter(|(_, f)| known(f.0)).map(|(p, _)| p).collect();
    if theirs.len() != ours.len() || frames.len() < theirs.len() {
        oracle_fail("rtcp-diff-count", format!("rustrtc {} vs reference {} known packets on {}", ours.len(), theirs.len(), hex(data)));
        return;
    }
    if ours.is_empty() {
        return;
    }
    accepted();
    for (a, b) in ours.iter().zip(theirs.iter()) {
        let any = b.as_any();
        macro_rules! bad {
            ($k:expr) => {{
                oracle_fail(concat!("rtcp-diff-", $k), format!("rustrtc {:?} vs reference {:?} on {}", a, b, hex(data)));
                return;
            }};
        }
        match a {
            RtcpPacket::SenderReport(s) => {
                let Some(r) = any.downcast_ref::<rtcp::sender_report::SenderReport>() else { bad!("kind") };
                if s.sender_ssrc != r.ssrc
                    || ((s.ntp_most as u64) << 32 | s.ntp_least as u64) != r.ntp_time
                    || s.rtp_timestamp != r.rtp_time
                    || s.packet_count != r.packet_count
                    || s.octet_count != r.octet_count
                    || s.report_blocks.len() != r.reports.len()
                    || !s.report_blocks.iter().zip(r.reports.iter()).all(|(x, y)| rb_eq(x, y))
                {
                    bad!("sr")
                }
            }
            RtcpPacket::ReceiverReport(s) => {
                let Some(r) = any.downcast_ref::<rtcp::receiver_report::ReceiverReport>() else { bad!("kind") };
                if s.sender_ssrc != r.ssrc
                    || s.report_blocks.len() != r.reports.len()
                    || !s.report_blocks.iter().zip(r.reports.iter()).all(|(x, y)| rb_eq(x, y))
                {
                    bad!("rr")
                }
            }
            RtcpPacket::Goodbye(s) => {
                let Some(r) = any.downcast_ref::<rtcp::goodbye::Goodbye>() else { bad!("kind") };
                if s.sources != r.sources {
                    bad!("bye-sources")
                }
                let theirs_reason = String::from_utf8_lossy(&r.reason).to_string();
                if s.reason.clone().unwrap_or_default() != theirs_reason {
                    bad!("bye-reason")
                }
            }
            RtcpPacket::SourceDescription(s) => {
                let Some(r) = any.downcast_ref::<rtcp::source_description::SourceDescription>() else { bad!("kind") };
                // the reference ignores the SC count and maps item types > 8 to END: compare the common prefix of
                // chunks whose item types both know
                if s.chunks.iter().any(|c| c.items.iter().any(|i| i.ty > 8)) {
                    continue;
                }
                for (x, y) in s.chunks.iter().zip(r.chunks.iter()) {
                    let yi: Vec<(u8, String)> = y.items.iter().map(|i| (i.sdes_type as u8, String::from_utf8_lossy(&i.text).to_string())).collect();
                    let xi: Vec<(u8, String)> = x.items.iter().map(|i| (i.ty, i.text.clone())).collect();
                    if x.ssrc != y.source || xi != yi {
                        bad!("sdes")
                    }
                }
            }
            RtcpPacket::PictureLossIndication(s) => {
                let Some(r) = any.downcast_ref::<rtcp::payload_feedbacks::picture_loss_indication::PictureLossIndication>() else { bad!("kind") };
                if s.sender_ssrc != r.sender_ssrc || s.media_ssrc != r.media_ssrc {
                    bad!("pli")
                }
            }
            RtcpPacket::FullIntraRequest(s) => {
                let Some(r) = any.downcast_ref::<rtcp::payload_feedbacks::full_intra_request::FullIntraRequest>() else { bad!("kind") };
                let x: Vec<(u32, u8)> = s.requests.iter().map(|e| (e.ssrc, e.sequence_number)).collect();
                let y: Vec<(u32, u8)> = r.fir.iter().map(|e| (e.ssrc, e.sequence_number)).collect();
                if s.sender_ssrc != r.sender_ssrc || x != y {
                    bad!("fir")
                }
            }
            RtcpPacket::GenericNack(s) => {
                let Some(r) = any.downcast_ref::<rtcp::transport_feedbacks::transport_layer_nack::TransportLayerNack>() else { bad!("kind") };
                let mut x = s.lost_packets.clone();
                x.sort_unstable();
                x.dedup();
                let mut y: Vec<u16> = r.nacks.iter().flat_map(|p| p.packet_list()).collect();
                y.sort_unstable();
                y.dedup();
                if s.sender_ssrc != r.sender_ssrc || s.media_ssrc != r.media_ssrc || x != y {
                    bad!("nack")
                }
            }
            RtcpPacket::RemoteBitrateEstimate(s) => {
                let Some(r) = any.downcast_ref::<rtcp::payload_feedbacks::receiver_estimated_maximum_bitrate::ReceiverEstimatedMaximumBitrate>() else { bad!("kind") };
                if s.sender_ssrc != r.sender_ssrc || s.ssrcs != r.ssrcs {
                    bad!("remb-ssrcs")
                }
                // value: the reference's mantissa-0 quirk (it decodes 0 * 2^e as 2^(e+23)) is not compared
                let y = r.bitrate as f64;
                let x = s.bitrate_bps as f64;
                if s.bitrate_bps != 0 || y < 1.0 {
                    if y >= 18446744073709551616.0 {
                        // mantissa << exponent does not fit u64 (exponent > 46): a decoder has to saturate, not wrap
                        if s.bitrate_bps != u64::MAX {
                            bad!("remb-bitrate-wraps")
                        }
                    } else if x != 0.0 && ((x - y) / x).abs() > 1e-6 {
                        bad!("remb-bitrate")
                    }
                }
            }
            RtcpPacket::TransportWideCc(s) => {
                let Some(r) = any.downcast_ref::<rtcp::transport_feedbacks::transport_layer_cc::TransportLayerCc>() else { bad!("kind") };
                if s.sender_ssrc != r.sender_ssrc
                    || s.media_ssrc != r.media_ssrc
                    || s.base_sequence != r.base_sequence_number
                    || s.packet_status_count != r.packet_status_count
                    || s.reference_time_64ms != r.reference_time
                    || s.feedback_packet_count != r.fb_pkt_count
                {
                    bad!("twcc")
                }
            }
        }
    }
}

fuzz_target!(|data: &[u8]| {
    guard("rtp_differential", || {
        if is_rtcp(data) {
            diff_rtcp(data);
        } else {
            diff_rtp(data);
        }
    });
});
