#![no_main]
//! RtpPacket::parse -> get_extension(1..=255) -> set_extension(id, data) with fuzzer-chosen id/data
//! -> marshal -> re-parse equal.
//! Input layout: [id][dlen][data: dlen & 31 bytes][packet bytes...]
use c07common::{accepted, guard, hex, oracle_fail, rtc};
use libfuzzer_sys::fuzz_target;
use rustrtc::rtp::RtpPacket;

fuzz_target!(|data: &[u8]| {
    guard("rtp_packet", || {
        let mut u = arbitrary::Unstructured::new(data);
        let id: u8 = u.arbitrary().unwrap_or(1);
        let dlen = (u.arbitrary::<u8>().unwrap_or(1) & 31) as usize;
        let ext_data: Vec<u8> = u.bytes(dlen.min(u.len())).map(|b| b.to_vec()).unwrap_or_default();
        let raw = u.take_rest();
        let n = raw.len();

        let pkt = match rtc("RtpPacket::parse", n, || RtpPacket::parse(raw)) {
            Ok(p) => p,
            Err(_) => return,
        };
        accepted();

        // structural facts of a successful parse
        if pkt.payload.len() + pkt.padding_len as usize > n {
            oracle_fail("rtp-parse-longer-than-input", format!("payload {} + padding {} > {}", pkt.payload.len(), pkt.padding_len, n));
        }

        // 1. get_extension is total for every id and returns a slice of the block
        let ext_len = pkt.header.extension.as_ref().map(|e| e.data.len()).unwrap_or(0);
        for i in 1..=255u8 {
            if let Some(v) = rtc("RtpHeader::get_extension", n, || pkt.header.get_extension(i)) {
                if v.len() > ext_len {
                    oracle_fail("rtp-get-extension-longer-than-block", format!("id {i}: {} > {}", v.len(), ext_len));
                }
            }
        }

        // 2. marshal(parse(x)) re-parses to an equal packet
        match rtc("RtpPacket::marshal", n, || pkt.marshal()) {
            Ok(w) => match rtc("RtpPacket::parse(2)", w.len(), || RtpPacket::parse(&w)) {
                Ok(p2) => {
                    if p2 != pkt {
                        oracle_fail("rtp-marshal-reparse-differs", format!("in {} -> {:?} -> {} -> {:?}", hex(raw), pkt, hex(&w), p2));
                    }
                }
                Err(e) => oracle_fail("rtp-marshal-unparseable", format!("in {} -> {} : {e:?}", hex(raw), hex(&w))),
            },
            Err(e) => {
                // a parsed packet always has <= 15 CSRCs and a 4-aligned extension block
                oracle_fail("rtp-marshal-rejects-parsed", format!("in {}: {e:?}", hex(raw)));
            }
        }
        let mut buf = Vec::new();
        rtc("RtpPacket::marshal_into", n, || pkt.marshal_into(&mut buf));
        if Some(&buf) != pkt.marshal().ok().as_ref() {
            oracle_fail("rtp-marshal-into-differs", hex(raw));
        }

        // 3. set_extension on the parsed header (what a relay does when stamping mid / abs-send-time)
        let mut stamped = pkt.clone();
        let before: Vec<Option<bytes::Bytes>> = (1..=14u8).map(|i| pkt.header.get_extension(i)).collect();
        let r = rtc("RtpHeader::set_extension", n, || stamped.header.set_extension(id, &ext_data));
        match r {
            Err(_) => {
                if stamped != pkt {
                    oracle_fail("rtp-set-extension-err-but-changed", hex(raw));
                }
            }
            Ok(()) => {
                let got = stamped.header.get_extension(id);
                if got.as_deref() != Some(&ext_data[..]) {
                    // an earlier element with the same id that get_extension() could not read (truncated) is the
                    // only excuse; everything else is a wrong stamp
                    oracle_fail("rtp-set-then-get-differs", format!("id {id} data {} got {:?} in {}", hex(&ext_data), got, hex(raw)));
                }
                // other well-formed elements unchanged
                for i in 1..=14u8 {
                    if i != id {
                        let now = stamped.header.get_extension(i);
                        if now != before[(i - 1) as usize] {
                            oracle_fail("rtp-set-extension-disturbs-other", format!("id {id} disturbed {i}: {:?} -> {:?} in {}", before[(i - 1) as usize], now, hex(raw)));
                        }
                    }
                }
                match rtc("RtpPacket::marshal(stamped)", n, || stamped.marshal()) {
                    Ok(w) => match RtpPacket::parse(&w) {
                        Ok(p3) => {
                            if p3 != stamped {
                                oracle_fail("rtp-stamped-reparse-differs", format!("{} -> {}", hex(raw), hex(&w)));
                            }
                        }
                        Err(e) => oracle_fail("rtp-stamped-unparseable", format!("{} -> {}: {e:?}", hex(raw), hex(&w))),
                    },
                    Err(e) => oracle_fail("rtp-stamped-marshal-rejected", format!("{}: {e:?}", hex(raw))),
                }
            }
        }
    });
});
