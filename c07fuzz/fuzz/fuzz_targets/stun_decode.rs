#![no_main]
//! StunMessage::decode on arbitrary bytes.
//! Oracles: header facts; agreement with the attribute framing of webrtc-rs `stun` when both accept;
//! re-encode (with / without MESSAGE-INTEGRITY and FINGERPRINT) of what was decoded decodes to the same fields.
use c07common::{accepted, guard, hex, oracle_fail, reference, rtc};
use libfuzzer_sys::fuzz_target;
use rustrtc::transports::ice::stun::{StunAttribute, StunDecoded, StunMessage};
use std::net::{IpAddr, SocketAddr};

fn xor_addr_expect(v: &[u8], txid: &[u8; 12]) -> Option<SocketAddr> {
    // RFC 5389 15.2, written independently of rustrtc
    if v.len() < 4 {
        return None;
    }
    let port = u16::from_be_bytes([v[2], v[3]]) ^ 0x2112;
    let cookie = [0x21u8, 0x12, 0xA4, 0x42];
    match v[1] {
        1 if v.len() >= 8 => {
            let a: Vec<u8> = (0..4).map(|i| v[4 + i] ^ cookie[i]).collect();
            Some(SocketAddr::new(IpAddr::from([a[0], a[1], a[2], a[3]]), port))
        }
        2 if v.len() >= 20 => {
            let mut a = [0u8; 16];
            for i in 0..16 {
                a[i] = v[4 + i] ^ if i < 4 { cookie[i] } else { txid[i - 4] };
            }
            Some(SocketAddr::new(IpAddr::from(a), port))
        }
        _ => None,
    }
}

fn same(a: &StunDecoded, b: &StunDecoded) -> bool {
    a.class == b.class
        && a.method == b.method
        && a.transaction_id == b.transaction_id
        && a.xor_mapped_address == b.xor_mapped_address
        && a.xor_peer_address == b.xor_peer_address
        && a.realm == b.realm
        && a.nonce == b.nonce
        && a.data == b.data
        && a.use_candidate == b.use_candidate
        && a.lifetime == b.lifetime
}

fuzz_target!(|data: &[u8]| {
    guard("stun_decode", || {
        let n = data.len();
        let d = match rtc("StunMessage::decode", n, || StunMessage::decode(data)) {
            Ok(d) => d,
            Err(_) => return,
        };
        accepted();
        if n < 20 || d.transaction_id[..] != data[8..20] {
            oracle_fail("stun-header", format!("txid/len wrong on {}", hex(data)));
            return;
        }
        if let Some(v) = &d.data {
            if v.len() + 24 > n {
                oracle_fail("stun-data-longer-than-input", hex(data));
            }
        }

        // reference framing
        let theirs = reference(|| {
            let mut m = stun::message::Message::new();
            m.write(data).map(|_| m)
        });
        if let Some(Ok(m)) = theirs {
            let attrs: Vec<(u16, &Vec<u8>)> = m.attributes.0.iter().map(|a| (a.typ.value(), &a.value)).collect();
            let last = |t: u16| attrs.iter().rev().find(|a| a.0 == t).map(|a| a.1.clone());
            let last_ok = |t: u16, ok: &dyn Fn(&Vec<u8>) -> bool| attrs.iter().rev().find(|a| a.0 == t && ok(a.1)).map(|a| a.1.clone());
            if d.data != last(0x0013) {
                oracle_fail("stun-diff-data", hex(data));
            }
            if d.use_candidate != attrs.iter().any(|a| a.0 == 0x0025) {
                oracle_fail("stun-diff-use-candidate", hex(data));
            }
            let utf8 = |v: &Vec<u8>| std::str::from_utf8(v).is_ok();
            if d.realm.as_ref().map(|s| s.as_bytes().to_vec()) != last_ok(0x0014, &utf8) {
                oracle_fail("stun-diff-realm", hex(data));
            }
            if d.nonce.as_ref().map(|s| s.as_bytes().to_vec()) != last_ok(0x0015, &utf8) {
                oracle_fail("stun-diff-nonce", hex(data));
            }
            let four = |v: &Vec<u8>| v.len() >= 4;
            if d.lifetime != last_ok(0x000D, &four).map(|v| u32::from_be_bytes([v[0], v[1], v[2], v[3]])) {
                oracle_fail("stun-diff-lifetime", hex(data));
            }
            if d.error_code != last_ok(0x0009, &four).map(|v| v[2] as u16 * 100 + v[3] as u16) {
                oracle_fail("stun-diff-error-code", hex(data));
            }
            let txid = d.transaction_id;
            // the reference rewrites the pre-RFC type 0x8020 to XOR-MAPPED-ADDRESS; rustrtc (correctly) does not
            let legacy = data.windows(2).any(|w| w == [0x80, 0x20]);
            let addr_ok = |v: &Vec<u8>| xor_addr_expect(v, &txid).is_some();
            for (t, got, name) in [
                (0x0020u16, d.xor_mapped_address, "stun-diff-xor-mapped"),
                (0x0016, d.xor_relayed_address, "stun-diff-xor-relayed"),
                (0x0012, d.xor_peer_address, "stun-diff-xor-peer"),
            ] {
                let want = last_ok(t, &addr_ok).and_then(|v| xor_addr_expect(&v, &txid));
                if got != want && !(legacy && t == 0x0020) {
                    oracle_fail(name, format!("rustrtc {:?} expected {:?} on {}", got, want, hex(data)));
                }
            }
        }

        // re-encode what was decoded
        let mut attributes = Vec::new();
        if let Some(a) = d.xor_mapped_address {
            attributes.push(StunAttribute::XorMappedAddress(a));
        }
        if let Some(a) = d.xor_peer_address {
            attributes.push(StunAttribute::XorPeerAddress(a));
        }
        if let Some(s) = &d.realm {
            attributes.push(StunAttribute::Realm(s.clone()));
        }
        if let Some(s) = &d.nonce {
            attributes.push(StunAttribute::Nonce(s.clone()));
        }
        if let Some(v) = &d.data {
            attributes.push(StunAttribute::Data(v.clone()));
        }
        if let Some(v) = d.lifetime {
            attributes.push(StunAttribute::Lifetime(v));
        }
        if d.use_candidate {
            attributes.push(StunAttribute::UseCandidate);
        }
        let msg = StunMessage { class: d.class, method: d.method, transaction_id: d.transaction_id, attributes };
        let key = if d.transaction_id[0] & 1 == 1 { Some(&d.transaction_id[..]) } else { None };
        let fp = d.transaction_id[0] & 2 == 2;
        match rtc("StunMessage::encode", n, || msg.encode(key, fp)) {
            Ok(w) => match rtc("StunMessage::decode(2)", w.len(), || StunMessage::decode(&w)) {
                Ok(d2) => {
                    let mut want = d.clone();
                    want.xor_relayed_address = None;
                    want.error_code = None;
                    if !same(&want, &d2) || d2.xor_relayed_address.is_some() || d2.error_code.is_some() {
                        oracle_fail("stun-reencode-differs", format!("{} -> {:?} -> {} -> {:?}", hex(data), d, hex(&w), d2));
                    }
                }
                Err(e) => oracle_fail("stun-reencode-undecodable", format!("{} -> {}: {e}", hex(data), hex(&w))),
            },
            Err(e) => oracle_fail("stun-reencode-rejected", format!("{}: {e}", hex(data))),
        }
    });
});
