#![no_main]
//! DTLS handshake body decoders, selected by the first input byte (mod 7):
//! 0 ClientHello, 1 ServerHello, 2 HelloVerifyRequest, 3 ServerKeyExchange, 4 CertificateMessage,
//! 5 ClientKeyExchange, 6 Finished.
//! Oracles: the decoder never consumes more than it was given; encode(decode(x)) decodes to the same fields
//! (a fixed point after one round), and every variable-length field is no longer than the input.
use bytes::{Bytes, BytesMut};
use c07common::{accepted, guard, hex, oracle_fail, rtc};
use libfuzzer_sys::fuzz_target;
use rustrtc::transports::dtls::handshake::*;

macro_rules! roundtrip {
    ($ty:ident, $body:expr, $n:expr, $fields:expr) => {{
        let mut b = Bytes::copy_from_slice($body);
        let first = match rtc(concat!(stringify!($ty), "::decode"), $n, || $ty::decode(&mut b)) {
            Ok(v) => v,
            Err(_) => return,
        };
        accepted();
        let f1 = $fields(&first);
        // the image carries a 4-byte length per field; a certificate list costs at least 3 input bytes per entry
        if f1.len() > 2 * $n + 64 {
            oracle_fail(concat!("dtls-", stringify!($ty), "-fields-longer-than-input"), hex($body));
        }
        let mut out = BytesMut::new();
        rtc(concat!(stringify!($ty), "::encode"), $n, || first.encode(&mut out));
        let mut b2 = out.clone().freeze();
        match rtc(concat!(stringify!($ty), "::decode(2)"), out.len(), || $ty::decode(&mut b2)) {
            Ok(second) => {
                if $fields(&second) != f1 {
                    oracle_fail(concat!("dtls-", stringify!($ty), "-reencode-differs"), format!("{} -> {:?} -> {} -> {:?}", hex($body), first, hex(&out), second));
                }
            }
            Err(e) => oracle_fail(concat!("dtls-", stringify!($ty), "-reencode-undecodable"), format!("{} -> {}: {e}", hex($body), hex(&out))),
        }
    }};
}

fn flat(parts: &[&[u8]]) -> Vec<u8> {
    // length-prefixed concatenation: a canonical byte image of the decoded fields
    let mut v = Vec::new();
    for p in parts {
        v.extend_from_slice(&(p.len() as u32).to_be_bytes());
        v.extend_from_slice(p);
    }
    v
}

fuzz_target!(|data: &[u8]| {
    guard("dtls_bodies", || {
        if data.is_empty() {
            return;
        }
        let sel = data[0] % 7;
        let body = &data[1..];
        let n = body.len();
        match sel {
            0 => roundtrip!(ClientHello, body, n, |h: &ClientHello| {
                let cs: Vec<u8> = h.cipher_suites.iter().flat_map(|c| c.to_be_bytes()).collect();
                flat(&[&[h.version.major, h.version.minor], &h.random.gmt_unix_time.to_be_bytes(), &h.random.random_bytes, &h.session_id, &h.cookie, &cs, &h.compression_methods, &h.extensions])
            }),
            1 => roundtrip!(ServerHello, body, n, |h: &ServerHello| {
                flat(&[&[h.version.major, h.version.minor], &h.random.gmt_unix_time.to_be_bytes(), &h.random.random_bytes, &h.session_id, &h.cipher_suite.to_be_bytes(), &[h.compression_method], &h.extensions])
            }),
            2 => roundtrip!(HelloVerifyRequest, body, n, |h: &HelloVerifyRequest| flat(&[&[h.version.major, h.version.minor], &h.cookie])),
            3 => roundtrip!(ServerKeyExchange, body, n, |h: &ServerKeyExchange| {
                flat(&[&[h.curve_type], &h.named_curve.to_be_bytes(), &h.public_key, &h.signature])
            }),
            4 => roundtrip!(CertificateMessage, body, n, |h: &CertificateMessage| {
                let parts: Vec<&[u8]> = h.certificates.iter().map(|c| &c[..]).collect();
                flat(&parts)
            }),
            5 => roundtrip!(ClientKeyExchange, body, n, |h: &ClientKeyExchange| flat(&[&h.identity_hint, &h.public_key])),
            _ => roundtrip!(Finished, body, n, |h: &Finished| flat(&[&h.verify_data])),
        }
    });
});
