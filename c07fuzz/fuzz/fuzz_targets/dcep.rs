#![no_main]
//! DCEP (RFC 8832): DataChannelOpen / DataChannelAck unmarshal -> marshal -> unmarshal, and agreement with
//! webrtc-rs `webrtc-data` when both accept.
use bytes::Bytes;
use c07common::{accepted, guard, hex, oracle_fail, reference, rtc};
use libfuzzer_sys::fuzz_target;
use rustrtc::transports::datachannel::{DataChannelAck, DataChannelOpen, DCEP_TYPE_ACK, DCEP_TYPE_OPEN};
use webrtc_util::marshal::Unmarshal;

fuzz_target!(|data: &[u8]| {
    guard("dcep", || {
        let n = data.len();
        if let Ok(a) = rtc("DataChannelAck::unmarshal", n, || DataChannelAck::unmarshal(data)) {
            accepted();
            if a.message_type != DCEP_TYPE_ACK || data[0] != DCEP_TYPE_ACK {
                oracle_fail("dcep-ack-type", hex(data));
            }
            let w = rtc("DataChannelAck::marshal", n, || a.marshal());
            if w != [DCEP_TYPE_ACK] {
                oracle_fail("dcep-ack-marshal", hex(&w));
            }
        }
        let open = match rtc("DataChannelOpen::unmarshal", n, || DataChannelOpen::unmarshal(data)) {
            Ok(o) => o,
            Err(_) => return,
        };
        accepted();
        if open.message_type != DCEP_TYPE_OPEN || open.label.len() + open.protocol.len() + 12 > n {
            oracle_fail("dcep-open-lengths", hex(data));
            return;
        }
        let w = rtc("DataChannelOpen::marshal", n, || open.marshal());
        // canonical: the marshalled form is the consumed prefix of the input
        if w[..] != data[..w.len().min(n)] {
            oracle_fail("dcep-open-marshal-not-prefix", format!("{} -> {}", hex(data), hex(&w)));
            return;
        }
        match rtc("DataChannelOpen::unmarshal(2)", w.len(), || DataChannelOpen::unmarshal(&w)) {
            Ok(o2) => {
                if (o2.channel_type, o2.priority, o2.reliability_parameter, &o2.label, &o2.protocol)
                    != (open.channel_type, open.priority, open.reliability_parameter, &open.label, &open.protocol)
                {
                    oracle_fail("dcep-open-roundtrip-differs", format!("{:?} vs {:?}", open, o2));
                }
            }
            Err(e) => oracle_fail("dcep-open-remarshal-rejected", format!("{}: {e}", hex(&w))),
        }
        // reference
        let theirs = reference(|| {
            let mut b = Bytes::copy_from_slice(data);
            webrtc_data::message::Message::unmarshal(&mut b)
        });
        if let Some(Ok(webrtc_data::message::Message::DataChannelOpen(r))) = theirs {
            if r.priority != open.priority
                || r.reliability_parameter != open.reliability_parameter
                || r.label != open.label.as_bytes()
                || r.protocol != open.protocol.as_bytes()
            {
                oracle_fail("dcep-diff-open", format!("rustrtc {:?} vs reference {:?} on {}", open, r, hex(data)));
            }
        }
    });
});
