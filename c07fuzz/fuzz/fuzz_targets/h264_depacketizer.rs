#![no_main]
//! A SEQUENCE of RTP packets into H264Depacketizer (RFC 6184 single NAL / STAP-A / FU-A).
//! Input: repeated records [flags][len_hi][len_lo][payload: len bytes]; flags: bit0 marker, bit1 "sequence
//! number continues" (else jumps by bits 4..7 + 2), bit2 "new timestamp", bit3 audio kind.
//! Oracles: an independent model of the RFC 6184 reassembly predicts every emitted sample (count, data,
//! timestamp, last-packet flag); bytes out never exceed bytes in + one reconstructed NAL header per packet.
use bytes::Bytes;
use c07common::{accepted, guard, oracle_fail, rtc};
use libfuzzer_sys::fuzz_target;
use rustrtc::media::depacketizer::{Depacketizer, H264Depacketizer, PassThroughDepacketizer};
use rustrtc::media::frame::{MediaKind, MediaSample};
use rustrtc::rtp::{RtpHeader, RtpPacket};
use std::net::SocketAddr;

#[derive(Default)]
struct Model {
    buf: Vec<u8>,
    last_seq: Option<u16>,
    ts: u32,
}

/// (data, timestamp, is_last) per expected video sample
fn model_push(m: &mut Model, payload: &[u8], seq: u16, ts: u32, marker: bool) -> Vec<(Vec<u8>, u32, bool)> {
    let mut out = Vec::new();
    if payload.is_empty() {
        out.push((vec![], ts, marker));
        return out;
    }
    match payload[0] & 0x1f {
        24 => {
            let mut o = 1;
            while o + 2 < payload.len() {
                let l = u16::from_be_bytes([payload[o], payload[o + 1]]) as usize;
                o += 2;
                if l == 0 {
                    // a NAL unit has at least its header octet (RFC 6184 5.7.1): skipped, not a sample
                    continue;
                }
                if o + l > payload.len() {
                    break;
                }
                let d = payload[o..o + l].to_vec();
                o += l;
                out.push((d, ts, o == payload.len() && marker));
            }
        }
        28 => {
            if payload.len() < 2 {
                return out;
            }
            let fu = payload[1];
            if fu & 0x80 != 0 {
                m.buf.clear();
                m.buf.push((payload[0] & 0x60) | (fu & 0x1f));
                m.buf.extend_from_slice(&payload[2..]);
                m.ts = ts;
                m.last_seq = Some(seq);
            } else {
                let Some(last) = m.last_seq else { return out };
                if seq != last.wrapping_add(1) || ts != m.ts {
                    m.buf.clear();
                    m.last_seq = None;
                    return out;
                }
                m.buf.extend_from_slice(&payload[2..]);
                m.last_seq = Some(seq);
                if fu & 0x40 != 0 {
                    out.push((std::mem::take(&mut m.buf), m.ts, marker));
                    m.last_seq = None;
                }
            }
        }
        _ => out.push((payload.to_vec(), ts, marker)),
    }
    out
}

fuzz_target!(|data: &[u8]| {
    guard("h264_depacketizer", || {
        let addr: SocketAddr = "127.0.0.1:5004".parse().unwrap();
        let mut dep = H264Depacketizer::new();
        let mut pass = PassThroughDepacketizer;
        let mut model = Model::default();
        let mut seq: u16 = 65530;
        let mut ts: u32 = 0xffff_ff00;
        let mut o = 0;
        let mut bytes_in = 0usize;
        let mut bytes_out = 0usize;
        let mut packets = 0usize;
        while o + 3 <= data.len() {
            let flags = data[o];
            let len = (u16::from_be_bytes([data[o + 1], data[o + 2]]) as usize).min(data.len() - o - 3);
            let payload = &data[o + 3..o + 3 + len];
            o += 3 + len;
            packets += 1;
            seq = if flags & 2 != 0 { seq.wrapping_add(1) } else { seq.wrapping_add((flags >> 4) as u16 + 2) };
            if flags & 4 != 0 {
                ts = ts.wrapping_add(3000);
            }
            let marker = flags & 1 != 0;
            let audio = flags & 8 != 0;
            let mut h = RtpHeader::new(96, seq, ts, 0x1234_5678);
            h.marker = marker;
            let pkt = RtpPacket { header: h, payload: Bytes::copy_from_slice(payload), padding_len: 0 };
            bytes_in += len;
            let kind = if audio { MediaKind::Audio } else { MediaKind::Video };
            let got = match rtc("H264Depacketizer::push", bytes_in + 64 * packets, || dep.push(pkt.clone(), 90000, addr, kind)) {
                Ok(s) => s,
                Err(e) => {
                    oracle_fail("h264-push-error", format!("{e:?}"));
                    return;
                }
            };
            let _ = rtc("PassThroughDepacketizer::push", len, || pass.push(pkt.clone(), 90000, addr, kind));
            if audio {
                // audio passes through and must not disturb video reassembly
                if got.len() != 1 || !matches!(&got[0], MediaSample::Audio(a) if a.data[..] == *payload) {
                    oracle_fail("h264-audio-passthrough", format!("{} samples", got.len()));
                    return;
                }
                continue;
            }
            let want = model_push(&mut model, payload, seq, ts, marker);
            if got.len() != want.len() {
                oracle_fail("h264-sample-count", format!("packet {packets} type {}: got {} want {}", payload.first().map(|b| b & 31).unwrap_or(255), got.len(), want.len()));
                return;
            }
            for (g, w) in got.iter().zip(want.iter()) {
                match g {
                    MediaSample::Video(v) => {
                        bytes_out += v.data.len();
                        if v.data[..] != w.0[..] || v.rtp_timestamp != w.1 || v.is_last_packet != w.2 {
                            oracle_fail("h264-sample-differs-from-model", format!("packet {packets} type {}: len {} vs {}, ts {} vs {}, last {} vs {}", payload[0] & 31, v.data.len(), w.0.len(), v.rtp_timestamp, w.1, v.is_last_packet, w.2));
                            return;
                        }
                    }
                    _ => {
                        oracle_fail("h264-video-gave-audio", "");
                        return;
                    }
                }
            }
            if !got.is_empty() {
                accepted();
            }
        }
        if bytes_out > bytes_in + packets {
            oracle_fail("h264-more-bytes-out-than-in", format!("{bytes_out} > {bytes_in} + {packets}"));
        }
        let _ = dep.drop_count();
    });
});
