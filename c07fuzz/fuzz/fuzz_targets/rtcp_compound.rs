#![no_main]
//! parse_rtcp_packets -> marshal_rtcp_packets -> re-parse equal (modulo what the wire cannot carry).
use c07common::{accepted, guard, hex, oracle_fail, rtc};
use libfuzzer_sys::fuzz_target;
use rustrtc::rtp::{is_rtcp, marshal_rtcp_packets, parse_rtcp_packets, RtcpPacket};

/// Representation-independent form: NACK as a set; opaque tails modulo zero padding to the 32-bit boundary.
fn norm(p: &RtcpPacket) -> RtcpPacket {
    let mut p = p.clone();
    match &mut p {
        RtcpPacket::GenericNack(n) => {
            n.lost_packets.sort_unstable();
            n.lost_packets.dedup();
        }
        RtcpPacket::RemoteBitrateEstimate(r) => {
            // compared at the value the 18-bit mantissa / 6-bit exponent can carry
            let mut e = 0;
            while (r.bitrate_bps >> e) > 0x3FFFF {
                e += 1;
            }
            r.bitrate_bps = (r.bitrate_bps >> e) << e;
        }
        RtcpPacket::TransportWideCc(t) => {
            while t.payload.last() == Some(&0) {
                t.payload.pop();
            }
        }
        _ => {}
    }
    p
}

/// Text that the one-octet length cannot carry (only reachable through lossy UTF-8 replacement growing the text).
fn has_oversize_text(p: &RtcpPacket) -> bool {
    match p {
        RtcpPacket::SourceDescription(s) => s.chunks.iter().any(|c| c.items.iter().any(|i| i.text.len() > 255)),
        RtcpPacket::Goodbye(b) => b.reason.as_ref().map(|r| r.len() > 255).unwrap_or(false),
        _ => false,
    }
}

fuzz_target!(|data: &[u8]| {
    guard("rtcp_compound", || {
        let n = data.len();
        let _ = rtc("is_rtcp", n, || is_rtcp(data));
        let pkts = match rtc("parse_rtcp_packets", n, || parse_rtcp_packets(data, None)) {
            Ok(p) => p,
            Err(_) => return,
        };
        if pkts.is_empty() {
            return;
        }
        accepted();
        // every packet costs at least 4 input bytes
        if pkts.len() * 4 > n {
            oracle_fail("rtcp-more-packets-than-input", format!("{} packets from {} bytes", pkts.len(), n));
        }
        let w = match rtc("marshal_rtcp_packets", n, || marshal_rtcp_packets(&pkts)) {
            Ok(w) => w,
            Err(e) => {
                // only an empty NACK (FCI-less feedback) is not re-marshallable
                let empty_nack = pkts.iter().any(|p| matches!(p, RtcpPacket::GenericNack(n) if n.lost_packets.is_empty()));
                if !empty_nack {
                    oracle_fail("rtcp-marshal-rejects-parsed", format!("{}: {e:?} {:?}", hex(data), pkts));
                }
                return;
            }
        };
        if w.len() % 4 != 0 {
            oracle_fail("rtcp-marshal-unaligned", format!("{} -> {}", hex(data), hex(&w)));
        }
        let back = match rtc("parse_rtcp_packets(2)", w.len(), || parse_rtcp_packets(&w, None)) {
            Ok(b) => b,
            Err(e) => {
                oracle_fail("rtcp-marshal-unparseable", format!("{} -> {}: {e:?}", hex(data), hex(&w)));
                return;
            }
        };
        if pkts.iter().any(has_oversize_text) {
            return;
        }
        if back.len() != pkts.len() {
            oracle_fail("rtcp-reparse-count-differs", format!("{} -> {} : {} vs {}", hex(data), hex(&w), pkts.len(), back.len()));
            return;
        }
        for (a, b) in pkts.iter().zip(back.iter()) {
            if norm(a) != norm(b) {
                let kind = match a {
                    RtcpPacket::SenderReport(_) => "sr",
                    RtcpPacket::ReceiverReport(_) => "rr",
                    RtcpPacket::SourceDescription(_) => "sdes",
                    RtcpPacket::Goodbye(_) => "bye",
                    RtcpPacket::PictureLossIndication(_) => "pli",
                    RtcpPacket::FullIntraRequest(_) => "fir",
                    RtcpPacket::GenericNack(_) => "nack",
                    RtcpPacket::RemoteBitrateEstimate(_) => "remb",
                    RtcpPacket::TransportWideCc(_) => "twcc",
                };
                oracle_fail(&format!("rtcp-reparse-differs-{kind}"), format!("{} -> {:?} -> {} -> {:?}", hex(data), a, hex(&w), b));
            }
        }
    });
});
