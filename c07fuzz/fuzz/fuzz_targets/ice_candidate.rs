#![no_main]
//! IceCandidate::from_sdp -> to_sdp -> from_sdp.
use c07common::{accepted, clip, guard, oracle_fail, rtc};
use libfuzzer_sys::fuzz_target;
use rustrtc::{IceCandidate, IceCandidatePair, IceCandidateType, IceRole};

fuzz_target!(|data: &[u8]| {
    guard("ice_candidate", || {
        let text = String::from_utf8_lossy(data).into_owned();
        let n = text.len();
        let c = match rtc("IceCandidate::from_sdp", n, || IceCandidate::from_sdp(&text)) {
            Ok(c) => c,
            Err(_) => return,
        };
        accepted();
        // "candidate: 1 udp .." (blank after the colon) is accepted with an EMPTY foundation; such a value has no
        // spelling (to_sdp starts with a blank). Lax input handling, not a totality problem: not compared.
        if c.foundation.is_empty() || c.transport.is_empty() {
            let _ = rtc("IceCandidate::to_sdp", n, || c.to_sdp());
            return;
        }
        let s = rtc("IceCandidate::to_sdp", n, || c.to_sdp());
        let c2 = match rtc("IceCandidate::from_sdp(2)", s.len(), || IceCandidate::from_sdp(&s)) {
            Ok(c2) => c2,
            Err(e) => {
                oracle_fail("candidate-serialised-unparseable", format!("{:?} -> {:?}: {e}", clip(&text, 200), clip(&s, 200)));
                return;
            }
        };
        // to_sdp does not print the related address of a host candidate (RFC 5245: host candidates have none)
        let mut want = c.clone();
        if want.typ == IceCandidateType::Host {
            want.related_address = None;
        }
        // an IPv6 zone ("fe80::1%3") is accepted by the address parser and not printed: scope ids are local to a
        // host and are not signalled, so they are not compared
        fn unscoped(a: std::net::SocketAddr) -> std::net::SocketAddr {
            match a {
                std::net::SocketAddr::V6(mut v) => {
                    v.set_scope_id(0);
                    std::net::SocketAddr::V6(v)
                }
                other => other,
            }
        }
        want.address = unscoped(want.address);
        want.related_address = want.related_address.map(unscoped);
        if c2 != want {
            oracle_fail("candidate-roundtrip-differs", format!("{:?} -> {:?} -> {:?} -> {:?}", clip(&text, 200), c, clip(&s, 200), c2));
            return;
        }
        let s2 = rtc("IceCandidate::to_sdp(2)", s.len(), || c2.to_sdp());
        if s2 != s {
            oracle_fail("candidate-serialisation-not-fixed-point", format!("{:?} vs {:?}", clip(&s, 200), clip(&s2, 200)));
        }
        // what the agent computes on a remote candidate
        let _ = rtc("IceCandidate::base_address", n, || c.base_address());
        let pair = IceCandidatePair::new(c.clone(), c2);
        let p1 = rtc("IceCandidatePair::priority", n, || pair.priority(IceRole::Controlling));
        let p2 = rtc("IceCandidatePair::priority", n, || pair.priority(IceRole::Controlled));
        if p1 != p2 {
            // same candidate on both sides: G == D, so the role cannot matter
            oracle_fail("candidate-pair-priority-asymmetric", format!("{p1} vs {p2}"));
        }
    });
});
