#![no_main]
//! UDPTL receive side. Input: [mode][max_size_hi][max_size_lo] then records.
//! mode bit0 = 0: a sequence of UdtlReceiveBuffer::try_deliver calls, records [seq_hi][seq_lo][len][payload];
//! mode bit0 = 1: a sequence of datagrams, records [len_hi][len_lo][bytes], sent over loopback to a live
//!   UdtlTransport whose `recv` does the UDPTL packet decode (there is no socket-free decoder) and feeds the
//!   same buffer. mode bits 1..2 pick UdtlConfig.max_datagram in {1400, 64, 4, 0}.
//! Oracles: call counter exact; buffered_count <= max_size; a delivered payload is one that was submitted;
//! an in-order packet is delivered at once; expected_seq only moves forward by at most buffered+1.
use c07common::{accepted, guard, hex, oracle_fail, rtc};
use libfuzzer_sys::fuzz_target;
use rustrtc::{UdtlConfig, UdtlReceiveBuffer, UdtlTransport};
use std::cell::RefCell;
use std::net::SocketAddr;
use std::sync::Arc;
use std::time::Duration;

struct Rig {
    rt: tokio::runtime::Runtime,
    tx: tokio::net::UdpSocket,
    rx: Arc<tokio::net::UdpSocket>,
    rx_addr: SocketAddr,
}

thread_local! {
    static RIG: RefCell<Option<Rig>> = const { RefCell::new(None) };
}

fn with_rig<T>(f: impl FnOnce(&Rig) -> T) -> T {
    RIG.with(|r| {
        let mut r = r.borrow_mut();
        if r.is_none() {
            let rt = tokio::runtime::Builder::new_current_thread().enable_all().build().expect("rt");
            let (tx, rx) = rt.block_on(async {
                (tokio::net::UdpSocket::bind("127.0.0.1:0").await.expect("bind"), tokio::net::UdpSocket::bind("127.0.0.1:0").await.expect("bind"))
            });
            let rx_addr = rx.local_addr().unwrap();
            *r = Some(Rig { rt, tx, rx: Arc::new(rx), rx_addr });
        }
        f(r.as_ref().unwrap())
    })
}

fn check_step(buf: &UdtlReceiveBuffer, max: u16, calls: u64, before_expected: u16, before_buffered: usize, seq: u16, primary: &[u8], got: &Option<Vec<u8>>, submitted: &[Vec<u8>]) -> bool {
    if buf.packets_received != calls {
        oracle_fail("udptl-call-counter", format!("{} vs {}", buf.packets_received, calls));
        return false;
    }
    if buf.buffered_count() > max as usize {
        oracle_fail("udptl-buffer-over-max-size", format!("{} > {}", buf.buffered_count(), max));
        return false;
    }
    if let Some(d) = got {
        if !submitted.iter().any(|s| s == d) {
            oracle_fail("udptl-delivered-unknown-payload", hex(d));
            return false;
        }
    }
    if seq == before_expected && got.as_deref() != Some(primary) {
        oracle_fail("udptl-in-order-not-delivered", format!("seq {seq}"));
        return false;
    }
    let adv = buf.expected_seq().wrapping_sub(before_expected) as usize;
    if adv > before_buffered + 1 {
        oracle_fail("udptl-expected-seq-jump", format!("{before_expected} -> {} with {before_buffered} buffered", buf.expected_seq()));
        return false;
    }
    true
}

fuzz_target!(|data: &[u8]| {
    guard("udptl_buffer", || {
        if data.len() < 3 {
            return;
        }
        let mode = data[0];
        let max = u16::from_be_bytes([data[1], data[2]]);
        let rest = &data[3..];
        let total = rest.len();
        let mut buf = if max == 0 { UdtlReceiveBuffer::new() } else { UdtlReceiveBuffer::with_max_size(max) };
        let max = if max == 0 { 128 } else { max };
        let mut submitted: Vec<Vec<u8>> = Vec::new();
        let mut calls = 0u64;
        let mut o = 0;
        if mode & 1 == 0 {
            while o + 3 <= rest.len() {
                let seq = u16::from_be_bytes([rest[o], rest[o + 1]]);
                let len = (rest[o + 2] as usize).min(rest.len() - o - 3);
                let primary = rest[o + 3..o + 3 + len].to_vec();
                o += 3 + len;
                submitted.push(primary.clone());
                calls += 1;
                let (be, bb) = (buf.expected_seq(), buf.buffered_count());
                let red = vec![(seq.wrapping_sub(1), primary.clone())];
                let got = match rtc("UdtlReceiveBuffer::try_deliver", total + 64 * calls as usize, || buf.try_deliver(seq, primary.clone(), red)) {
                    Ok(g) => g,
                    Err(e) => {
                        oracle_fail("udptl-try-deliver-error", format!("{e:?}"));
                        return;
                    }
                };
                if got.is_some() {
                    accepted();
                }
                if !check_step(&buf, max, calls, be, bb, seq, &primary, &got, &submitted) {
                    return;
                }
            }
            let e = buf.expected_seq();
            rtc("UdtlReceiveBuffer::reset", total, || buf.reset(e.wrapping_add(7)));
            if buf.buffered_count() != 0 || buf.expected_seq() != e.wrapping_add(7) {
                oracle_fail("udptl-reset", "");
            }
        } else {
            let max_datagram = [1400u16, 64, 4, 0][((mode >> 1) & 3) as usize];
            with_rig(|rig| {
                let cfg = UdtlConfig { max_datagram, ..UdtlConfig::default() };
                let tr = UdtlTransport::with_config(rig.rx.clone(), rig.tx.local_addr().unwrap(), cfg);
                let mut sent = 0;
                while o + 2 <= rest.len() && sent < 8 {
                    let len = (u16::from_be_bytes([rest[o], rest[o + 1]]) as usize).min(rest.len() - o - 2);
                    let dgram = &rest[o + 2..o + 2 + len];
                    o += 2 + len;
                    sent += 1;
                    // own reading of the framing `recv` implements: seq(2) len(2) primary, on what fits the buffer
                    let seen = &dgram[..dgram.len().min(max_datagram as usize)];
                    let parsed = if seen.len() >= 4 {
                        let l = u16::from_be_bytes([seen[2], seen[3]]) as usize;
                        if 4 + l <= seen.len() {
                            Some((u16::from_be_bytes([seen[0], seen[1]]), seen[4..4 + l].to_vec()))
                        } else {
                            None
                        }
                    } else {
                        None
                    };
                    let (be, bb) = (buf.expected_seq(), buf.buffered_count());
                    let r = rtc("UdtlTransport::recv", total + 4096, || {
                        rig.rt.block_on(async {
                            if rig.tx.send_to(dgram, rig.rx_addr).await.is_err() {
                                return None;
                            }
                            tokio::time::timeout(Duration::from_millis(200), tr.recv(&mut buf)).await.ok()
                        })
                    });
                    let Some(r) = r else { return }; // datagram not sendable / lost: nothing to judge
                    let got = match r {
                        Ok(g) => g,
                        Err(e) => {
                            oracle_fail("udptl-recv-error", format!("{e:?} on {}", hex(dgram)));
                            return;
                        }
                    };
                    match parsed {
                        None => {
                            if got.is_some() || buf.packets_received != calls {
                                oracle_fail("udptl-recv-delivers-undecodable-datagram", hex(dgram));
                                return;
                            }
                        }
                        Some((seq, primary)) => {
                            accepted();
                            submitted.push(primary.clone());
                            calls += 1;
                            if !check_step(&buf, max, calls, be, bb, seq, &primary, &got, &submitted) {
                                return;
                            }
                        }
                    }
                }
            });
        }
    });
});
