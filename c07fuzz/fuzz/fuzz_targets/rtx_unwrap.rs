#![no_main]
//! RFC 4588: unwrap_rtx_packet on a parsed received packet, wrap back, marshal.
//! Input: [primary pt][primary ssrc: 4][packet bytes].
use c07common::{accepted, guard, hex, oracle_fail, rtc};
use libfuzzer_sys::fuzz_target;
use rustrtc::rtp::RtpPacket;
use rustrtc::rtx::{decode_osn, encode_osn, unwrap_rtx_packet, wrap_rtx_packet, RtxSenderConfig};

fuzz_target!(|data: &[u8]| {
    guard("rtx_unwrap", || {
        if data.len() < 5 {
            return;
        }
        let pt = data[0] & 0x7f;
        let ssrc = u32::from_be_bytes([data[1], data[2], data[3], data[4]]);
        let raw = &data[5..];
        let n = raw.len();
        let Ok(rtx) = rtc("RtpPacket::parse", n, || RtpPacket::parse(raw)) else { return };
        let un = rtc("unwrap_rtx_packet", n, || unwrap_rtx_packet(&rtx, ssrc, pt));
        let osn = rtc("decode_osn", n, || decode_osn(&rtx.payload));
        match (&un, osn) {
            (None, None) => {
                if rtx.payload.len() >= 2 {
                    oracle_fail("rtx-unwrap-refuses-osn-bearing-payload", hex(raw));
                }
                return;
            }
            (Some(p), Some(o)) => {
                accepted();
                if p.header.sequence_number != o
                    || o.to_be_bytes() != rtx.payload[..2]
                    || encode_osn(o) != rtx.payload[..2]
                    || p.payload[..] != rtx.payload[2..]
                    || p.header.ssrc != ssrc
                    || p.header.payload_type != pt
                    || p.header.timestamp != rtx.header.timestamp
                    || p.header.marker != rtx.header.marker
                    || p.padding_len != 0
                {
                    oracle_fail("rtx-unwrap-fields", format!("{} -> {:?}", hex(raw), p));
                    return;
                }
                // the recovered packet is a packet: it marshals and re-parses to itself
                match rtc("RtpPacket::marshal(unwrapped)", n, || p.marshal()) {
                    Ok(w) => {
                        if RtpPacket::parse(&w).ok().as_ref() != Some(p) {
                            oracle_fail("rtx-unwrapped-reparse-differs", hex(raw));
                        }
                    }
                    Err(e) => oracle_fail("rtx-unwrapped-unmarshalable", format!("{e:?} {}", hex(raw))),
                }
                // wrap it again with the RTX stream's own parameters: same OSN + payload
                let cfg = RtxSenderConfig { rtx_ssrc: rtx.header.ssrc, rtx_payload_type: rtx.header.payload_type };
                let back = rtc("wrap_rtx_packet", n, || wrap_rtx_packet(p, &cfg, rtx.header.sequence_number));
                if back.payload != rtx.payload
                    || back.header.sequence_number != rtx.header.sequence_number
                    || back.header.ssrc != rtx.header.ssrc
                    || back.header.payload_type != rtx.header.payload_type
                    || back.header.timestamp != rtx.header.timestamp
                    || back.header.marker != rtx.header.marker
                {
                    oracle_fail("rtx-rewrap-differs", format!("{} -> {:?}", hex(raw), back));
                }
            }
            _ => oracle_fail("rtx-unwrap-and-decode-osn-disagree", hex(raw)),
        }
    });
});
