#![no_main]
//! Not a fuzz target: `cargo +nightly fuzz run gen_seeds` (re)writes the binary seed corpora under
//! fuzz/seeds/<target>/ - golden packets produced by rustrtc itself and by the webrtc-rs reference crates -
//! from libFuzzer's init hook, then exits. (A plain `fn main` binary cannot live in a cargo-fuzz crate.)
use bytes::{Bytes, BytesMut};
use c07common::srtp_model::{Profile, Srtp};
use libfuzzer_sys::fuzz_target;
use rustrtc::rtp::*;
use rustrtc::transports::datachannel::{DataChannelAck, DataChannelOpen};
use rustrtc::transports::dtls::handshake::*;
use rustrtc::transports::dtls::record::{ContentType, DtlsRecord, ProtocolVersion};
use rustrtc::transports::ice::stun::{StunAttribute, StunClass, StunMessage, StunMethod};
use std::path::PathBuf;
use webrtc_util::marshal::Marshal;

fn put(target: &str, name: &str, data: &[u8]) {
    // dtls_record_stream inputs start with a mode byte (0 = raw datagram)
    let prefixed;
    let data = if target == "dtls_record_stream" && !name.starts_with("framed") {
        prefixed = [&[0u8][..], data].concat();
        &prefixed[..]
    } else {
        data
    };
    let dir = PathBuf::from(env!("CARGO_MANIFEST_DIR")).join("seeds").join(target);
    std::fs::create_dir_all(&dir).unwrap();
    std::fs::write(dir.join(name), data).unwrap();
}

fn rtp_samples() -> Vec<(String, Vec<u8>)> {
    let mut v = Vec::new();
    let mut h = RtpHeader::new(96, 1000, 42, 0x1234_5678);
    v.push(("rtc-plain".into(), RtpPacket::new(h.clone(), vec![1, 2, 3, 4]).marshal().unwrap()));
    h.marker = true;
    h.csrcs = vec![1, 2, 3];
    h.set_extension(1, &[0xAA]).unwrap();
    h.set_extension(3, b"mid0").unwrap();
    h.set_extension(14, &[9; 16]).unwrap();
    v.push(("rtc-ext-csrc".into(), RtpPacket::new(h.clone(), vec![7; 20]).marshal().unwrap()));
    let mut p = RtpPacket::new(h.clone(), vec![5; 9]);
    p.padding_len = 3;
    v.push(("rtc-padding".into(), p.marshal().unwrap()));
    let mut h2 = RtpHeader::new(111, 65535, u32::MAX, 1);
    h2.extension = Some(RtpHeaderExtension::new(0x1000, vec![1, 2, 0xAA, 0xBB, 200, 0, 0, 0]));
    v.push(("rtc-twobyte".into(), RtpPacket::new(h2.clone(), vec![]).marshal().unwrap()));
    h2.extension = Some(RtpHeaderExtension::new(0x4242, vec![1, 2, 3, 4]));
    v.push(("rtc-rawext".into(), RtpPacket::new(h2, vec![0xFF]).marshal().unwrap()));
    // reference-marshalled
    let rp = rtp::packet::Packet {
        header: rtp::header::Header {
            version: 2,
            padding: true,
            extension: true,
            marker: true,
            payload_type: 100,
            sequence_number: 7,
            timestamp: 90000,
            ssrc: 0xdead_beef,
            csrc: vec![0x0102_0304],
            extension_profile: 0xBEDE,
            extensions: vec![
                rtp::header::Extension { id: 2, payload: Bytes::from_static(&[1, 2, 3]) },
                rtp::header::Extension { id: 5, payload: Bytes::from_static(b"x") },
            ],
            extensions_padding: 0,
        },
        payload: Bytes::from_static(&[0x7c, 0x85, 1, 2, 3]),
    };
    v.push(("ref-onebyte".into(), rp.marshal().unwrap().to_vec()));
    let mut rp2 = rp.clone();
    rp2.header.padding = false;
    rp2.header.extension_profile = 0x1000;
    rp2.header.extensions = vec![rtp::header::Extension { id: 200, payload: Bytes::from(vec![3u8; 40]) }];
    v.push(("ref-twobyte".into(), rp2.marshal().unwrap().to_vec()));
    // malformed shapes a real network produces: truncated element, reserved id 15
    v.push(("hand-ext-truncated".into(), vec![0x90, 96, 0, 1, 0, 0, 0, 2, 0, 0, 0, 3, 0xBE, 0xDE, 0, 1, 0x17, 1, 2, 3]));
    v.push(("hand-ext-id15".into(), vec![0x90, 96, 0, 1, 0, 0, 0, 2, 0, 0, 0, 3, 0xBE, 0xDE, 0, 1, 0xF0, 1, 0x10, 3, 9, 9]));
    v
}

fn rb(i: u32) -> ReportBlock {
    ReportBlock { ssrc: i, fraction_lost: 3, packets_lost: -5, highest_sequence: 70000, jitter: 12, last_sender_report: 0x1111_2222, delay_since_last_sender_report: 99 }
}

fn rtcp_samples() -> Vec<(String, Vec<u8>)> {
    let mut v = Vec::new();
    let pk = vec![
        ("sr", RtcpPacket::SenderReport(SenderReport { sender_ssrc: 1, ntp_most: 2, ntp_least: 3, rtp_timestamp: 4, packet_count: 5, octet_count: 6, report_blocks: vec![rb(7), rb(8)] })),
        ("rr", RtcpPacket::ReceiverReport(ReceiverReport { sender_ssrc: 1, report_blocks: vec![rb(9)] })),
        ("sdes", RtcpPacket::SourceDescription(SourceDescription { chunks: vec![SdesChunk { ssrc: 1, items: vec![SdesItem { ty: 1, text: "user@host".into() }, SdesItem { ty: 6, text: "tool".into() }] }, SdesChunk { ssrc: 2, items: vec![] }] })),
        ("bye", RtcpPacket::Goodbye(Goodbye { sources: vec![1, 2], reason: Some("bye now".into()) })),
        ("pli", RtcpPacket::PictureLossIndication(PictureLossIndication { sender_ssrc: 1, media_ssrc: 2 })),
        ("fir", RtcpPacket::FullIntraRequest(FullIntraRequest { sender_ssrc: 1, requests: vec![FirRequest { ssrc: 2, sequence_number: 3 }, FirRequest { ssrc: 4, sequence_number: 5 }] })),
        ("nack", RtcpPacket::GenericNack(GenericNack { sender_ssrc: 1, media_ssrc: 2, lost_packets: vec![65534, 65535, 0, 1, 100, 117] })),
        ("remb", RtcpPacket::RemoteBitrateEstimate(RemoteBitrateEstimate { sender_ssrc: 1, bitrate_bps: 2_500_000, ssrcs: vec![2, 3] })),
        ("twcc", RtcpPacket::TransportWideCc(TransportWideCc { sender_ssrc: 1, media_ssrc: 2, base_sequence: 10, packet_status_count: 3, reference_time_64ms: 1000, feedback_packet_count: 1, payload: vec![0x20, 0x03, 4, 8, 12, 0, 0, 0] })),
    ];
    for (n, p) in &pk {
        v.push((format!("rtc-{n}"), marshal_rtcp_packets(std::slice::from_ref(p)).unwrap()));
    }
    let all: Vec<RtcpPacket> = pk.iter().map(|x| x.1.clone()).collect();
    v.push(("rtc-compound".into(), marshal_rtcp_packets(&all).unwrap()));
    // reference-marshalled
    use rtcp::reception_report::ReceptionReport;
    let rr = ReceptionReport { ssrc: 5, fraction_lost: 1, total_lost: 0x00ff_fffe, last_sequence_number: 9, jitter: 8, last_sender_report: 7, delay: 6 };
    let refs: Vec<(&str, Box<dyn rtcp::packet::Packet + Send + Sync>)> = vec![
        ("sr", Box::new(rtcp::sender_report::SenderReport { ssrc: 1, ntp_time: 0x0102_0304_0506_0708, rtp_time: 9, packet_count: 10, octet_count: 11, reports: vec![rr.clone()], profile_extensions: Bytes::new() })),
        ("rr", Box::new(rtcp::receiver_report::ReceiverReport { ssrc: 1, reports: vec![rr.clone(), rr], profile_extensions: Bytes::from_static(&[1, 2, 3, 4]) })),
        ("bye", Box::new(rtcp::goodbye::Goodbye { sources: vec![1], reason: Bytes::from_static(b"x") })),
        ("pli", Box::new(rtcp::payload_feedbacks::picture_loss_indication::PictureLossIndication { sender_ssrc: 1, media_ssrc: 2 })),
        ("nack", Box::new(rtcp::transport_feedbacks::transport_layer_nack::TransportLayerNack { sender_ssrc: 1, media_ssrc: 2, nacks: vec![rtcp::transport_feedbacks::transport_layer_nack::NackPair { packet_id: 65530, lost_packets: 0x8001 }] })),
        ("remb", Box::new(rtcp::payload_feedbacks::receiver_estimated_maximum_bitrate::ReceiverEstimatedMaximumBitrate { sender_ssrc: 1, bitrate: 8_927_168.0, ssrcs: vec![7] })),
        ("sdes", Box::new(rtcp::source_description::SourceDescription { chunks: vec![rtcp::source_description::SourceDescriptionChunk { source: 3, items: vec![rtcp::source_description::SourceDescriptionItem { sdes_type: rtcp::source_description::SdesType::SdesCname, text: Bytes::from_static(b"cname") }] }] })),
    ];
    for (n, p) in &refs {
        if let Ok(b) = p.marshal() {
            v.push((format!("ref-{n}"), b.to_vec()));
        }
    }
    // XR + padded RR by hand
    v.push(("hand-xr".into(), vec![0x80, 207, 0, 2, 0, 0, 0, 1, 4, 0, 0, 0]));
    v.push(("hand-rr-padded".into(), vec![0xA0, 201, 0, 2, 0, 0, 0, 1, 0, 0, 0, 4]));
    v
}

fn stun_samples() -> Vec<(String, Vec<u8>)> {
    let mut v = Vec::new();
    let tid = [1u8, 2, 3, 4, 5, 6, 7, 8, 9, 10, 11, 12];
    let mut req = StunMessage::binding_request(tid, Some("rustrtc"));
    req.attributes.push(StunAttribute::Username("abcd:efgh".into()));
    req.attributes.push(StunAttribute::Priority(0x6e7f00ff));
    req.attributes.push(StunAttribute::IceControlling(42));
    req.attributes.push(StunAttribute::UseCandidate);
    v.push(("rtc-binding-request".into(), req.encode(Some(b"password"), true).unwrap()));
    v.push(("rtc-binding-success-v4".into(), StunMessage::binding_success_response(tid, "192.0.2.1:32853".parse().unwrap()).encode(Some(b"pw"), true).unwrap()));
    v.push(("rtc-binding-success-v6".into(), StunMessage::binding_success_response(tid, "[2001:db8::1]:9".parse().unwrap()).encode(None, false).unwrap()));
    v.push(("rtc-allocate".into(), StunMessage::allocate_request(tid, vec![StunAttribute::RequestedTransport(17), StunAttribute::Lifetime(600), StunAttribute::Realm("example.org".into()), StunAttribute::Nonce("n0nce".into())]).encode(None, false).unwrap()));
    let data_ind = StunMessage { class: StunClass::Indication, method: StunMethod::Data, transaction_id: tid, attributes: vec![StunAttribute::XorPeerAddress("198.51.100.7:5000".parse().unwrap()), StunAttribute::Data(vec![0x80, 96, 0, 1, 0, 0, 0, 1, 0, 0, 0, 2, 9])] };
    v.push(("rtc-data-indication".into(), data_ind.encode(None, false).unwrap()));
    let cb = StunMessage { class: StunClass::Request, method: StunMethod::ChannelBind, transaction_id: tid, attributes: vec![StunAttribute::ChannelNumber(0x4000), StunAttribute::XorPeerAddress("[::1]:1".parse().unwrap())] };
    v.push(("rtc-channel-bind".into(), cb.encode(Some(b"k"), false).unwrap()));
    // reference-built: 401 with realm/nonce/error-code, relayed address
    {
        use stun::message::*;
        let mut m = Message::new();
        m.typ = MessageType { method: METHOD_ALLOCATE, class: CLASS_ERROR_RESPONSE };
        m.transaction_id = stun::agent::TransactionId(tid);
        m.write_header();
        m.add(stun::attributes::ATTR_ERROR_CODE, &[0, 0, 4, 1, b'U', b'n', b'a', b'u', b't', b'h']);
        m.add(stun::attributes::ATTR_REALM, b"realm");
        m.add(stun::attributes::ATTR_NONCE, b"nonce-value");
        v.push(("ref-allocate-401".into(), m.raw.clone()));
        let mut m = Message::new();
        m.typ = MessageType { method: METHOD_ALLOCATE, class: CLASS_SUCCESS_RESPONSE };
        m.transaction_id = stun::agent::TransactionId(tid);
        m.write_header();
        m.add(stun::attributes::AttrType(0x0016), &[0, 1, 0x21 ^ 0x13, 0x12 ^ 0x88, 0x21 ^ 10, 0x12, 0xA4, 0x42 ^ 5]);
        m.add(stun::attributes::ATTR_XORMAPPED_ADDRESS, &[0, 1, 0x21, 0x12, 0x21 ^ 127, 0x12, 0xA4, 0x42 ^ 1]);
        m.add(stun::attributes::AttrType(0x000D), &600u32.to_be_bytes());
        v.push(("ref-allocate-success".into(), m.raw.clone()));
    }
    v
}

fn dtls_bodies() -> Vec<(u8, &'static str, Vec<u8>)> {
    let mut v = Vec::new();
    let rnd = Random { gmt_unix_time: 0x0102_0304, random_bytes: [7; 28] };
    let enc = |f: &dyn Fn(&mut BytesMut)| {
        let mut b = BytesMut::new();
        f(&mut b);
        b.to_vec()
    };
    let ch = ClientHello {
        version: ProtocolVersion::DTLS_1_2,
        random: rnd.clone(),
        session_id: vec![],
        cookie: vec![1, 2, 3, 4],
        cipher_suites: rustrtc::transports::dtls::get_client_hello_cipher_suites(),
        compression_methods: vec![0],
        extensions: rustrtc::transports::dtls::get_client_hello_extensions(),
    };
    v.push((0, "client-hello", enc(&|b| ch.encode(b))));
    let mut ch0 = ch.clone();
    ch0.extensions.clear();
    ch0.cookie.clear();
    v.push((0, "client-hello-min", enc(&|b| ch0.encode(b))));
    let sh = ServerHello { version: ProtocolVersion::DTLS_1_2, random: rnd, session_id: vec![9; 32], cipher_suite: 0xC02B, compression_method: 0, extensions: vec![0xff, 0x01, 0, 1, 0, 0, 0x0e, 0, 5, 0, 2, 0, 1, 0] };
    v.push((1, "server-hello", enc(&|b| sh.encode(b))));
    v.push((2, "hello-verify", enc(&|b| HelloVerifyRequest { version: ProtocolVersion::DTLS_1_0, cookie: vec![5; 20] }.encode(b))));
    v.push((3, "server-key-exchange", enc(&|b| ServerKeyExchange { curve_type: 3, named_curve: 23, public_key: vec![4; 65], signature: vec![0x30; 70] }.encode(b))));
    v.push((4, "certificate", enc(&|b| CertificateMessage { certificates: vec![vec![0x30, 0x82, 1, 2, 3], vec![1]] }.encode(b))));
    v.push((5, "client-key-exchange", enc(&|b| ClientKeyExchange { identity_hint: vec![], public_key: vec![4; 65] }.encode(b))));
    v.push((6, "finished", enc(&|b| Finished { verify_data: vec![1; 12] }.encode(b))));
    v
}

fn hs_type(sel: u8) -> HandshakeType {
    [HandshakeType::ClientHello, HandshakeType::ServerHello, HandshakeType::HelloVerifyRequest, HandshakeType::ServerKeyExchange, HandshakeType::Certificate, HandshakeType::ClientKeyExchange, HandshakeType::Finished][sel as usize]
}

fn record(ct: ContentType, epoch: u16, seq: u64, payload: Vec<u8>) -> Vec<u8> {
    let mut b = BytesMut::new();
    DtlsRecord { content_type: ct, version: ProtocolVersion::DTLS_1_2, epoch, sequence_number: seq, payload: Bytes::from(payload) }.encode(&mut b);
    b.to_vec()
}

fn generate() {
    for (n, w) in rtp_samples() {
        let mut s = vec![3u8, 4, b'm', b'i', b'd', b'1'];
        s.extend_from_slice(&w);
        put("rtp_packet", &n, &s);
        put("rtp_differential", &format!("rtp-{n}"), &w);
        let mut r = vec![96u8, 0, 0, 0, 9];
        r.extend_from_slice(&w);
        put("rtx_unwrap", &n, &r);
    }
    for (n, w) in rtcp_samples() {
        put("rtcp_compound", &n, &w);
        put("rtp_differential", &format!("rtcp-{n}"), &w);
    }
    for (n, w) in stun_samples() {
        put("stun_decode", &n, &w);
    }
    // DTLS
    let mut flight = Vec::new();
    for (i, (sel, name, body)) in dtls_bodies().into_iter().enumerate() {
        let mut s = vec![sel];
        s.extend_from_slice(&body);
        put("dtls_bodies", name, &s);
        let mut hb = BytesMut::new();
        HandshakeMessage { msg_type: hs_type(sel), total_length: body.len() as u32, message_seq: i as u16, fragment_offset: 0, fragment_length: body.len() as u32, body: Bytes::from(body.clone()) }.encode(&mut hb);
        let rec = record(ContentType::Handshake, 0, i as u64, hb.to_vec());
        put("dtls_record_stream", name, &rec);
        if (1..=4).contains(&sel) {
            flight.extend_from_slice(&rec);
        }
    }
    put("dtls_record_stream", "server-flight", &flight);
    // two handshake messages in one record, and a fragment
    let mut two = BytesMut::new();
    HandshakeMessage { msg_type: HandshakeType::ServerHelloDone, total_length: 0, message_seq: 4, fragment_offset: 0, fragment_length: 0, body: Bytes::new() }.encode(&mut two);
    HandshakeMessage { msg_type: HandshakeType::Finished, total_length: 12, message_seq: 5, fragment_offset: 0, fragment_length: 12, body: Bytes::from(vec![1u8; 12]) }.encode(&mut two);
    put("dtls_record_stream", "two-messages", &record(ContentType::Handshake, 0, 9, two.to_vec()));
    put("dtls_record_stream", "fragment", &record(ContentType::Handshake, 0, 10, vec![11, 0, 1, 0, 0, 2, 0, 0, 0x80, 0, 0, 4, 9, 9, 9, 9]));
    let mut misc = record(ContentType::ChangeCipherSpec, 0, 11, vec![1]);
    misc.extend(record(ContentType::Handshake, 1, 0, vec![0xAB; 40]));
    misc.extend(record(ContentType::Alert, 1, 1, vec![1, 0]));
    misc.extend(record(ContentType::ApplicationData, 1, 2, vec![0xCD; 30]));
    put("dtls_record_stream", "ccs-finished-alert-appdata", &misc);
    // framed mode: [1] then per record [sel][seq][len: int_in_range 0..=600 -> 2 bytes][hs type idx][mseq][body]
    put("dtls_record_stream", "framed-hello", &[1, 0, 0, 0, 0, 1, 0, 1, 1, 0, 2, 2, 0, 3, 4, 0]);
    // DCEP
    let open = DataChannelOpen { message_type: 3, channel_type: 0x82, priority: 256, reliability_parameter: 3, label: "chat".into(), protocol: "proto".into() };
    put("dcep", "rtc-open", &open.marshal());
    put("dcep", "rtc-ack", &DataChannelAck { message_type: 2 }.marshal());
    let ro = webrtc_data::message::Message::DataChannelOpen(webrtc_data::message::message_channel_open::DataChannelOpen {
        channel_type: webrtc_data::message::message_channel_open::ChannelType::PartialReliableTimed,
        priority: 0,
        reliability_parameter: 1000,
        label: "l\u{e9}".as_bytes().to_vec(),
        protocol: vec![],
    });
    if let Ok(b) = ro.marshal() {
        put("dcep", "ref-open", &b);
    }
    // SRTP: per profile, raw protected (mode 0/1) and plain (mode 2/3)
    let key: Vec<u8> = (0u8..16).collect();
    let salt: Vec<u8> = (16u8..30).collect();
    let rtp = rtp_samples();
    let rtcp = rtcp_samples();
    for (pi, prof) in Profile::ALL.iter().enumerate() {
        let m = Srtp::new(*prof, &key, &salt[..prof.salt_len()]).unwrap();
        for (n, w) in rtp.iter().filter(|x| x.0.starts_with("rtc-")).take(3) {
            let prot = m.protect_rtp(w, 0).unwrap();
            let mut s = vec![pi as u8, 0, 0, 0, 0];
            s.extend_from_slice(&prot);
            put("srtp_unprotect", &format!("p{pi}-raw-{n}"), &s);
            let mut s = vec![pi as u8 | 2 << 2, 0, 0, 0, 0];
            s.extend_from_slice(w);
            put("srtp_unprotect", &format!("p{pi}-plain-{n}"), &s);
        }
        for (n, w) in rtcp.iter().filter(|x| x.0 == "rtc-sr" || x.0 == "rtc-compound") {
            let prot = m.protect_rtcp(w, 5, true).unwrap();
            let mut s = vec![pi as u8 | 1 << 2, 0, 0, 0, 0];
            s.extend_from_slice(&prot);
            put("srtp_unprotect", &format!("p{pi}-rawrtcp-{n}"), &s);
            let mut s = vec![pi as u8 | 3 << 2 | 0x10, 0, 0, 0, 7];
            s.extend_from_slice(w);
            put("srtp_unprotect", &format!("p{pi}-plainrtcp-{n}"), &s);
        }
    }
    // RTX produced by the stack
    let orig = RtpPacket::parse(&rtp[1].1).unwrap();
    let rtx = rustrtc::rtx::wrap_rtx_packet(&orig, &rustrtc::rtx::RtxSenderConfig { rtx_ssrc: 77, rtx_payload_type: 97 }, 5);
    let mut s = vec![96u8, 0x12, 0x34, 0x56, 0x78];
    s.extend_from_slice(&rtx.marshal().unwrap());
    put("rtx_unwrap", "rtc-wrapped", &s);
    // H.264 sequences: [flags][len16][payload]
    let rec = |flags: u8, p: &[u8]| {
        let mut v = vec![flags, (p.len() >> 8) as u8, p.len() as u8];
        v.extend_from_slice(p);
        v
    };
    let mut s = rec(3, &[0x65, 1, 2, 3]);
    s.extend(rec(2 | 4, &[0x78, 0, 2, 0x67, 1, 0, 3, 0x68, 2, 3]));
    s.extend(rec(2 | 4, &[0x7c, 0x85, 1, 2, 3]));
    s.extend(rec(2, &[0x7c, 0x05, 4, 5]));
    s.extend(rec(3, &[0x7c, 0x45, 6]));
    s.extend(rec(2 | 8, &[0xF8, 0xFF, 0xFE]));
    s.extend(rec(2, &[]));
    put("h264_depacketizer", "single-stapa-fua", &s);
    let mut s = rec(2, &[0x7c, 0x85, 1]);
    s.extend(rec(0, &[0x7c, 0x05, 2])); // sequence jump
    s.extend(rec(2, &[0x7c, 0x45, 3])); // end without start
    s.extend(rec(2, &[0x7c, 0x85, 1]));
    s.extend(rec(2 | 4, &[0x7c, 0x45, 3])); // timestamp change inside frame
    s.extend(rec(2, &[0x78, 0, 9, 1])); // STAP-A length overrun
    s.extend(rec(2, &[0x7c]));
    put("h264_depacketizer", "broken-fua-stapa", &s);
    // UDPTL: try_deliver sequences [mode][max16] + [seq16][len][payload]
    let td = |seq: u16, p: &[u8]| {
        let mut v = vec![(seq >> 8) as u8, seq as u8, p.len() as u8];
        v.extend_from_slice(p);
        v
    };
    let mut s = vec![0u8, 0, 0];
    for (q, p) in [(1u16, &b"a"[..]), (2, b"bb"), (4, b"dddd"), (3, b"ccc"), (3, b"dup"), (40, b"far"), (5, b"e")] {
        s.extend(td(q, p));
    }
    put("udptl_buffer", "deliver-order-gap-dup", &s);
    let mut s = vec![0u8, 0, 4];
    for q in [65534u16, 65535, 1, 0, 2, 20000, 3, 9, 8, 7, 6, 5, 4] {
        s.extend(td(q, &q.to_be_bytes()));
    }
    put("udptl_buffer", "deliver-wrap-small-buffer", &s);
    // datagram mode: [mode|1][max16] + [len16][seq16 len16 primary (len16 redundant)*]
    let dg = |seq: u16, prim: &[u8], red: &[&[u8]]| {
        let mut d = seq.to_be_bytes().to_vec();
        d.extend_from_slice(&(prim.len() as u16).to_be_bytes());
        d.extend_from_slice(prim);
        for r in red {
            d.extend_from_slice(&(r.len() as u16).to_be_bytes());
            d.extend_from_slice(r);
        }
        let mut v = (d.len() as u16).to_be_bytes().to_vec();
        v.extend(d);
        v
    };
    let mut s = vec![1u8, 0, 0];
    s.extend(dg(1, b"ifp-one", &[]));
    s.extend(dg(3, b"ifp-three", &[b"ifp-two", b"ifp-one"]));
    s.extend(dg(2, b"ifp-two", &[b"ifp-one"]));
    s.extend(vec![0, 3, 0, 4, 0]); // truncated datagram
    put("udptl_buffer", "datagrams", &s);
    let mut s = vec![1u8 | 1 << 1, 0, 2];
    s.extend(dg(1, &[0x55; 100], &[]));
    put("udptl_buffer", "datagram-larger-than-max-datagram", &s);
}

fuzz_target!(init: {
    generate();
    eprintln!("seed corpora written");
    std::process::exit(0);
}, |_data: &[u8]| {});
