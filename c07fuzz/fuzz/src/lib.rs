//! Shared scaffolding of the C07 libFuzzer targets.
//!
//! * [`guard`]: runs a target body under `catch_unwind` with a process-wide
//!   panic hook. A panic is turned into the signature
//!   `<target>|panic@<file>:<line>` where file:line is the innermost rustrtc
//!   frame (`/repo/src/..`, printed relative to `/repo`) of the panicking
//!   stack, or the panic location itself when no rustrtc frame is on the stack.
//!   Signatures listed in the environment variable `C07_KNOWN`
//!   (newline-separated) are tolerated (counted, execution continues); every
//!   other panic prints `C07-SIGNATURE: <sig>` and aborts so libFuzzer saves
//!   the input. `C07_STRICT=1` aborts on every panic (replay).
//! * [`oracle_fail`]: same allow-list logic for semantic oracles
//!   (`<target>|oracle:<name>`).
//! * [`rtc`]: marks a call into rustrtc ("stage"), and checks the allocation
//!   bound of property C07 for it: peak live heap growth during the call
//!   <= 64 KiB + 64 x input length (`<target>|alloc@<stage>`).
//! * [`reference`]: runs a reference-crate call; panics inside are not findings.
//! * exit statistics: `C07-STATS target=.. execs=.. accepted=.. known=sig:n,..`

pub mod srtp_model;

use std::alloc::{GlobalAlloc, Layout, System};
use std::cell::{Cell, RefCell};
use std::collections::{BTreeMap, HashSet};
use std::panic::{self, AssertUnwindSafe};
use std::sync::atomic::{AtomicU64, AtomicUsize, Ordering};
use std::sync::{Mutex, Once, OnceLock};

// ------------------------------------------------------------------ allocator

pub struct CountingAlloc;

static LIVE: AtomicUsize = AtomicUsize::new(0);
static PEAK: AtomicUsize = AtomicUsize::new(0);

#[inline]
fn add_live(n: usize) {
    let now = LIVE.fetch_add(n, Ordering::Relaxed) + n;
    if now > PEAK.load(Ordering::Relaxed) {
        PEAK.fetch_max(now, Ordering::Relaxed);
    }
}

unsafe impl GlobalAlloc for CountingAlloc {
    unsafe fn alloc(&self, l: Layout) -> *mut u8 {
        let p = System.alloc(l);
        if !p.is_null() {
            add_live(l.size());
        }
        p
    }
    unsafe fn alloc_zeroed(&self, l: Layout) -> *mut u8 {
        let p = System.alloc_zeroed(l);
        if !p.is_null() {
            add_live(l.size());
        }
        p
    }
    unsafe fn dealloc(&self, p: *mut u8, l: Layout) {
        System.dealloc(p, l);
        LIVE.fetch_sub(l.size(), Ordering::Relaxed);
    }
    unsafe fn realloc(&self, p: *mut u8, l: Layout, new: usize) -> *mut u8 {
        let q = System.realloc(p, l, new);
        if !q.is_null() {
            if new >= l.size() {
                add_live(new - l.size());
            } else {
                LIVE.fetch_sub(l.size() - new, Ordering::Relaxed);
            }
        }
        q
    }
}

#[global_allocator]
static GLOBAL: CountingAlloc = CountingAlloc;

// ------------------------------------------------------------------ state

thread_local! {
    static TARGET: Cell<&'static str> = const { Cell::new("?") };
    static STAGE: Cell<&'static str> = const { Cell::new("-") };
    static IN_REF: Cell<bool> = const { Cell::new(false) };
    static LAST_PANIC: RefCell<Option<PanicInfo>> = const { RefCell::new(None) };
}

#[derive(Clone, Debug)]
struct PanicInfo {
    location: String,
    message: String,
    rtc_frame: Option<String>,
    backtrace: String,
}

struct Cfg {
    known: HashSet<String>,
    strict: bool,
    trace: bool,
}

fn cfg() -> &'static Cfg {
    static C: OnceLock<Cfg> = OnceLock::new();
    C.get_or_init(|| Cfg {
        known: std::env::var("C07_KNOWN")
            .unwrap_or_default()
            .lines()
            .map(|l| l.trim().to_string())
            .filter(|l| !l.is_empty())
            .collect(),
        strict: std::env::var("C07_STRICT").map(|v| v == "1").unwrap_or(false),
        trace: std::env::var("C07_STAGE_TRACE").map(|v| v == "1").unwrap_or(false),
    })
}

static EXECS: AtomicU64 = AtomicU64::new(0);
static ACCEPTED: AtomicU64 = AtomicU64::new(0);
static KNOWN_HITS: Mutex<BTreeMap<String, u64>> = Mutex::new(BTreeMap::new());
static TARGET_NAME: OnceLock<&'static str> = OnceLock::new();

extern "C" fn print_stats() {
    let t = TARGET_NAME.get().copied().unwrap_or("?");
    let known: Vec<String> = KNOWN_HITS
        .lock()
        .map(|m| m.iter().map(|(k, v)| format!("{k}={v}")).collect())
        .unwrap_or_default();
    eprintln!(
        "C07-STATS target={} execs={} accepted={} known={}",
        t,
        EXECS.load(Ordering::Relaxed),
        ACCEPTED.load(Ordering::Relaxed),
        known.join(";")
    );
}

/// The decoder accepted the input (reached past its length/version gates): the
/// "non-trivial" count of the design.
pub fn accepted() {
    ACCEPTED.fetch_add(1, Ordering::Relaxed);
}

/// Root of the rustrtc checkout the targets were built against (`C07_SRC_ROOT`, default `/repo/`; a scratch
/// worktree for sensitivity runs).
fn src_root() -> &'static str {
    static R: OnceLock<String> = OnceLock::new();
    R.get_or_init(|| {
        let mut r = std::env::var("C07_SRC_ROOT").unwrap_or_else(|_| "/repo/".into());
        if !r.ends_with('/') {
            r.push('/');
        }
        r
    })
}

fn first_rtc_frame(bt: &str) -> Option<String> {
    let prefix = format!("at {}", src_root());
    for line in bt.lines() {
        let l = line.trim();
        if let Some(rest) = l.strip_prefix(prefix.as_str()) {
            if rest.starts_with("src/") {
                // file:line:col -> file:line
                let mut it = rest.rsplitn(2, ':');
                let _col = it.next();
                if let Some(fl) = it.next() {
                    return Some(fl.to_string());
                }
            }
        }
    }
    None
}

fn install_hook() {
    static ONCE: Once = Once::new();
    ONCE.call_once(|| {
        panic::set_hook(Box::new(|info| {
            if IN_REF.with(|r| r.get()) {
                return;
            }
            let location = info
                .location()
                .map(|l| format!("{}:{}", l.file(), l.line()))
                .unwrap_or_else(|| "?".into());
            let message = if let Some(s) = info.payload().downcast_ref::<&str>() {
                s.to_string()
            } else if let Some(s) = info.payload().downcast_ref::<String>() {
                s.clone()
            } else {
                "<non-string panic>".into()
            };
            let backtrace = std::backtrace::Backtrace::force_capture().to_string();
            let rtc_frame = first_rtc_frame(&backtrace);
            LAST_PANIC.with(|p| {
                *p.borrow_mut() = Some(PanicInfo { location, message, rtc_frame, backtrace })
            });
        }));
        unsafe {
            libc::atexit(print_stats);
        }
    });
}

fn short_location(loc: &str) -> String {
    // registry paths: keep `<crate-version>/src/..`
    if let Some(i) = loc.find("/registry/src/") {
        let rest = &loc[i + "/registry/src/".len()..];
        if let Some(j) = rest.find('/') {
            return rest[j + 1..].to_string();
        }
    }
    loc.strip_prefix(src_root()).unwrap_or(loc).to_string()
}

fn fail(sig: String, detail: &str, extra: &str) {
    let c = cfg();
    if !c.strict && c.known.contains(&sig) {
        if let Ok(mut m) = KNOWN_HITS.lock() {
            *m.entry(sig).or_insert(0) += 1;
        }
        return;
    }
    eprintln!("C07-FINDING: {detail}");
    if !extra.is_empty() {
        eprintln!("{extra}");
    }
    eprintln!("C07-SIGNATURE: {sig}");
    std::process::abort();
}

/// Run one fuzz input. `body` receives nothing; capture the data by reference.
pub fn guard(target: &'static str, body: impl FnOnce()) {
    install_hook();
    let _ = TARGET_NAME.set(target);
    TARGET.with(|t| t.set(target));
    STAGE.with(|s| s.set("-"));
    EXECS.fetch_add(1, Ordering::Relaxed);
    let r = panic::catch_unwind(AssertUnwindSafe(body));
    if r.is_err() {
        let info = LAST_PANIC.with(|p| p.borrow_mut().take());
        let (sig, detail, bt) = match info {
            Some(i) => {
                let at = i.rtc_frame.clone().unwrap_or_else(|| short_location(&i.location));
                (
                    format!("{target}|panic@{at}"),
                    format!(
                        "panic in stage `{}` at {} (panic location {}): {}",
                        STAGE.with(|s| s.get()),
                        at,
                        short_location(&i.location),
                        i.message
                    ),
                    i.backtrace,
                )
            }
            None => (format!("{target}|panic@?"), "panic without hook record".to_string(), String::new()),
        };
        // keep the printed backtrace short: rustrtc + target frames only
        let short_bt: String = bt
            .lines()
            .filter(|l| l.contains(src_root()) || l.contains("fuzz_targets/") || l.contains("c07common"))
            .take(12)
            .collect::<Vec<_>>()
            .join("\n");
        fail(sig, &detail, &short_bt);
    }
}

/// A semantic oracle does not hold.
pub fn oracle_fail(name: &str, detail: impl AsRef<str>) {
    let t = TARGET.with(|t| t.get());
    let d = detail.as_ref();
    let d = if d.len() > 1500 { &d[..d.char_indices().nth(1500).map(|x| x.0).unwrap_or(d.len())] } else { d };
    fail(format!("{t}|oracle:{name}"), &format!("oracle `{name}` violated: {d}"), "");
}

/// Allocation allowance of C07 for pure decoders.
pub fn alloc_bound(input_len: usize) -> usize {
    64 * 1024 + 64 * input_len
}

/// Call into rustrtc: names the stage and checks the allocation bound.
pub fn rtc<T>(stage: &'static str, input_len: usize, f: impl FnOnce() -> T) -> T {
    STAGE.with(|s| s.set(stage));
    if cfg().trace {
        eprintln!("C07-STAGE: {stage}");
    }
    let before = LIVE.load(Ordering::Relaxed);
    PEAK.store(before, Ordering::Relaxed);
    let out = f();
    let peak = PEAK.load(Ordering::Relaxed);
    let grown = peak.saturating_sub(before);
    if grown > alloc_bound(input_len) {
        let t = TARGET.with(|t| t.get());
        fail(
            format!("{t}|alloc@{stage}"),
            &format!(
                "stage `{stage}` grew the live heap by {grown} bytes for {input_len} input bytes (bound {})",
                alloc_bound(input_len)
            ),
            "",
        );
    }
    out
}

/// Call into a reference implementation; a panic there is not a finding.
pub fn reference<T>(f: impl FnOnce() -> T) -> Option<T> {
    IN_REF.with(|r| r.set(true));
    let r = panic::catch_unwind(AssertUnwindSafe(f));
    IN_REF.with(|r| r.set(false));
    r.ok()
}

pub fn hex(b: &[u8]) -> String {
    let mut s = String::with_capacity(b.len() * 2);
    for x in b.iter().take(96) {
        s.push_str(&format!("{x:02x}"));
    }
    if b.len() > 96 {
        s.push_str("..");
    }
    s
}

/// Prefix of at most `n` bytes cut on a char boundary (for messages).
pub fn clip(s: &str, n: usize) -> &str {
    if s.len() <= n {
        return s;
    }
    let mut i = n;
    while !s.is_char_boundary(i) {
        i -= 1;
    }
    &s[..i]
}
