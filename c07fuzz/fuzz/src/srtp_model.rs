//! Independent SRTP / SRTCP reference model.
//!
//! Written from RFC 3711 (AES-128 counter mode + HMAC-SHA1, NULL cipher, key
//! derivation §4.3, packet index / rollover estimate §3.3.1 + Appendix A,
//! SRTCP §3.4), RFC 7714 (AEAD_AES_128_GCM for SRTP/SRTCP), RFC 5764 §4.1.2 /
//! RFC 4568 §6.2 (tag lengths per profile: under `AES_CM_128_HMAC_SHA1_32`
//! only the SRTP tag is 32 bits, the SRTCP tag stays 80 bits).
//!
//! Design points
//! * **Stateless core.** [`Srtp`] holds only the derived session keys. Every
//!   RTP operation takes the rollover counter explicitly (the 48-bit packet
//!   index is `ROC || SEQ`, SEQ is read from the packet), every RTCP protect
//!   takes the 31-bit SRTCP index explicitly. The oracle therefore controls
//!   the index; nothing is guessed inside the core.
//! * **Byte oriented.** Inputs and outputs are whole datagrams (`&[u8]` /
//!   `Vec<u8>`); the only parsing done is the RTP header length
//!   ([`rtp_header_len`]). Padding bytes are payload as far as SRTP is
//!   concerned and are returned untouched.
//! * **Receiver model on top.** [`RocState`] is the RFC 3711 receiver index
//!   estimator (Appendix A + the §3.3.1 update rule, no replay list);
//!   [`Receiver`] combines it with [`Srtp`] into a per-SSRC stateful receiver
//!   that other properties (C14) can use to authenticate captured datagrams.
//! * AES counter mode and HMAC are implemented here on top of the raw AES block
//!   function and SHA-1 (not via the `ctr` / `hmac` crates rustrtc uses).
//!   Anchors: RFC 3711 B.2 (keystream) and B.3 (key derivation) vectors in
//!   [`self_test`], and byte-for-byte agreement with the `webrtc-srtp` crate
//!   (checked continuously by property C04).

use aes::cipher::{BlockCipherEncrypt, KeyInit};
use aes_gcm::aead::{Aead, Payload};
use sha1::{Digest, Sha1};
use std::collections::HashMap;

/// Protection profile. `NullHmacSha1_80` is "AES_CM_128_HMAC_SHA1_80 with the
/// SRTP cipher set to NULL": RTP payloads are sent in clear but authenticated.
/// Whether SRTCP payloads are encrypted is a per-packet decision carried by the
/// E-bit (RFC 3711 §3.4), see [`Srtp::protect_rtcp`].
#[derive(Clone, Copy, Debug, PartialEq, Eq, Hash)]
pub enum Profile {
    AesCm128HmacSha1_80,
    AesCm128HmacSha1_32,
    AeadAes128Gcm,
    NullHmacSha1_80,
}

impl Profile {
    pub const ALL: [Profile; 4] = [
        Profile::AesCm128HmacSha1_80,
        Profile::AesCm128HmacSha1_32,
        Profile::AeadAes128Gcm,
        Profile::NullHmacSha1_80,
    ];
    pub fn name(self) -> &'static str {
        match self {
            Profile::AesCm128HmacSha1_80 => "AES_CM_128_HMAC_SHA1_80",
            Profile::AesCm128HmacSha1_32 => "AES_CM_128_HMAC_SHA1_32",
            Profile::AeadAes128Gcm => "AEAD_AES_128_GCM",
            Profile::NullHmacSha1_80 => "NULL_HMAC_SHA1_80",
        }
    }
    pub fn key_len(self) -> usize {
        16
    }
    /// Master salt length: 112 bits, or 96 bits for GCM (RFC 7714 §12).
    pub fn salt_len(self) -> usize {
        match self {
            Profile::AeadAes128Gcm => 12,
            _ => 14,
        }
    }
    pub fn is_aead(self) -> bool {
        self == Profile::AeadAes128Gcm
    }
    /// Bytes appended to an RTP packet.
    pub fn rtp_tag_len(self) -> usize {
        match self {
            Profile::AesCm128HmacSha1_80 | Profile::NullHmacSha1_80 => 10,
            Profile::AesCm128HmacSha1_32 => 4,
            Profile::AeadAes128Gcm => 16,
        }
    }
    /// Authentication tag bytes of an SRTCP packet (excluding the 4-byte index
    /// word). RFC 5764 §4.1.2: "RTCP auth_tag_length: 80" also for `_32`.
    pub fn rtcp_tag_len(self) -> usize {
        match self {
            Profile::AeadAes128Gcm => 16,
            _ => 10,
        }
    }
    /// Does the profile encrypt RTP payloads.
    pub fn encrypts_rtp(self) -> bool {
        self != Profile::NullHmacSha1_80
    }
}

#[derive(Clone, Debug, PartialEq, Eq)]
pub enum Error {
    BadKeyLength,
    /// Not an RTP/RTCP packet this model can delimit (too short, bad header lengths).
    Malformed,
    TooShort,
    AuthFailed,
}

/// Keys of one direction (RTP or RTCP) derived from a master key/salt.
#[derive(Clone, Debug, PartialEq, Eq)]
pub struct SessionKeys {
    pub cipher_key: [u8; 16],
    /// 20 bytes (empty for GCM).
    pub auth_key: Vec<u8>,
    /// 14 bytes (12 for GCM).
    pub salt: Vec<u8>,
}

pub const LABEL_RTP_ENC: u8 = 0;
pub const LABEL_RTP_AUTH: u8 = 1;
pub const LABEL_RTP_SALT: u8 = 2;
pub const LABEL_RTCP_ENC: u8 = 3;
pub const LABEL_RTCP_AUTH: u8 = 4;
pub const LABEL_RTCP_SALT: u8 = 5;

fn aes_block(key: &[u8; 16], block: [u8; 16]) -> [u8; 16] {
    let c = aes::Aes128::new(&(*key).into());
    let mut b = aes::Block::from(block);
    c.encrypt_block(&mut b);
    let mut out = [0u8; 16];
    out.copy_from_slice(&b);
    out
}

/// AES-128 counter mode keystream as defined in RFC 3711 §4.1.1: block `i` is
/// `AES_k(IV + i mod 2^128)`, where `iv` already is the 128-bit value
/// (`... * 2^16`, i.e. the low 16 bits are the block counter starting at 0).
pub fn aes_cm_keystream(key: &[u8; 16], iv: [u8; 16], len: usize) -> Vec<u8> {
    let c = aes::Aes128::new(&(*key).into());
    let base = u128::from_be_bytes(iv);
    let mut out = Vec::with_capacity(len + 16);
    let mut i: u128 = 0;
    while out.len() < len {
        let mut b = aes::Block::from(base.wrapping_add(i).to_be_bytes());
        c.encrypt_block(&mut b);
        out.extend_from_slice(&b);
        i += 1;
    }
    out.truncate(len);
    out
}

/// SRTP key derivation, RFC 3711 §4.3.1 with key derivation rate 0
/// (`r = index DIV kdr = 0`): `x = (label || r) XOR master_salt`,
/// keystream of `AES-CM(master_key, x * 2^16)`. A 96-bit GCM master salt is
/// right-padded with 16 zero bits first (RFC 7714 §11).
pub fn kdf(master_key: &[u8; 16], master_salt: &[u8], label: u8, out_len: usize) -> Vec<u8> {
    let mut x = [0u8; 16];
    let n = master_salt.len().min(14);
    x[..n].copy_from_slice(&master_salt[..n]);
    // key_id = label || r is 56 bits wide, right-aligned in the 112-bit salt:
    // the label byte is byte 7 of 14.
    x[7] ^= label;
    aes_cm_keystream(master_key, x, out_len)
}

/// HMAC-SHA1 (RFC 2104) over the concatenation of `parts`.
pub fn hmac_sha1(key: &[u8], parts: &[&[u8]]) -> [u8; 20] {
    let mut k = [0u8; 64];
    if key.len() > 64 {
        let d = Sha1::digest(key);
        k[..20].copy_from_slice(&d);
    } else {
        k[..key.len()].copy_from_slice(key);
    }
    let mut ipad = [0x36u8; 64];
    let mut opad = [0x5cu8; 64];
    for i in 0..64 {
        ipad[i] ^= k[i];
        opad[i] ^= k[i];
    }
    let mut inner = Sha1::new();
    inner.update(ipad);
    for p in parts {
        inner.update(p);
    }
    let ih = inner.finalize();
    let mut outer = Sha1::new();
    outer.update(opad);
    outer.update(ih);
    let oh = outer.finalize();
    let mut out = [0u8; 20];
    out.copy_from_slice(&oh);
    out
}

/// Length of the RTP header (fixed part + CSRCs + extension block) of `pkt`,
/// or `None` if the datagram is not a well delimited RTP packet (version != 2
/// or shorter than its own header).
pub fn rtp_header_len(pkt: &[u8]) -> Option<usize> {
    if pkt.len() < 12 || pkt[0] >> 6 != 2 {
        return None;
    }
    let cc = (pkt[0] & 0x0f) as usize;
    let mut n = 12 + 4 * cc;
    if pkt.len() < n {
        return None;
    }
    if pkt[0] & 0x10 != 0 {
        if pkt.len() < n + 4 {
            return None;
        }
        let words = u16::from_be_bytes([pkt[n + 2], pkt[n + 3]]) as usize;
        n += 4 + 4 * words;
        if pkt.len() < n {
            return None;
        }
    }
    Some(n)
}

pub fn rtp_seq(pkt: &[u8]) -> u16 {
    u16::from_be_bytes([pkt[2], pkt[3]])
}

pub fn rtp_ssrc(pkt: &[u8]) -> u32 {
    u32::from_be_bytes([pkt[8], pkt[9], pkt[10], pkt[11]])
}

/// Sender SSRC of the first RTCP packet of a compound (bytes 4..8).
pub fn rtcp_ssrc(pkt: &[u8]) -> u32 {
    u32::from_be_bytes([pkt[4], pkt[5], pkt[6], pkt[7]])
}

/// RTP/RTCP demultiplexing per RFC 5761 §4 (second byte 192..=223 is RTCP).
pub fn looks_like_rtcp(pkt: &[u8]) -> bool {
    pkt.len() >= 2 && (192..=223).contains(&pkt[1])
}

/// RFC 3711 Appendix A: the rollover counter `v` a receiver in state
/// (`roc`, `s_l`) must assume for a packet carrying sequence number `seq`.
/// Arithmetic is modulo 2^32 exactly as the pseudo-code says.
pub fn estimate_roc(roc: u32, s_l: u16, seq: u16) -> u32 {
    let s_l = s_l as i64;
    let seq = seq as i64;
    if s_l < 32768 {
        if seq - s_l > 32768 {
            roc.wrapping_sub(1)
        } else {
            roc
        }
    } else if s_l - 32768 > seq {
        roc.wrapping_add(1)
    } else {
        roc
    }
}

/// RFC 3711 §3.3.1 receiver index state for one SSRC: `s_l` is initialised
/// from the first packet that authenticates, ROC starts at 0 (or at a value
/// supplied out of band, [`RocState::with_roc`]).
#[derive(Clone, Copy, Debug, PartialEq, Eq, Default)]
pub struct RocState {
    pub roc: u32,
    pub s_l: Option<u16>,
}

impl RocState {
    pub fn with_roc(roc: u32) -> Self {
        RocState { roc, s_l: None }
    }
    /// ROC to use for a packet with sequence number `seq`.
    pub fn estimate(&self, seq: u16) -> u32 {
        match self.s_l {
            None => self.roc,
            Some(s_l) => estimate_roc(self.roc, s_l, seq),
        }
    }
    /// State update after a packet with (`v`, `seq`) has been authenticated:
    /// "if v = ROC and SEQ > s_l then s_l = SEQ; if v = ROC + 1 then ROC = v, s_l = SEQ".
    pub fn update(&mut self, v: u32, seq: u16) {
        match self.s_l {
            None => {
                self.roc = v;
                self.s_l = Some(seq);
            }
            Some(s_l) => {
                if v == self.roc {
                    if seq > s_l {
                        self.s_l = Some(seq);
                    }
                } else if v == self.roc.wrapping_add(1) {
                    self.roc = v;
                    self.s_l = Some(seq);
                }
            }
        }
    }
    /// Highest authenticated 48-bit index.
    pub fn index(&self) -> Option<u64> {
        self.s_l.map(|s| ((self.roc as u64) << 16) | s as u64)
    }
}

/// Result of unprotecting an SRTCP packet.
#[derive(Clone, Debug, PartialEq, Eq)]
pub struct RtcpPlain {
    /// The plain RTCP compound packet.
    pub packet: Vec<u8>,
    /// 31-bit SRTCP index found in the packet.
    pub index: u32,
    /// E-bit found in the packet.
    pub encrypted: bool,
}

/// Stateless SRTP/SRTCP transform for one master key (one direction).
#[derive(Clone)]
pub struct Srtp {
    pub profile: Profile,
    pub rtp: SessionKeys,
    pub rtcp: SessionKeys,
    rtcp_tag_len: usize,
    gcm_rtp: Option<aes_gcm::Aes128Gcm>,
    gcm_rtcp: Option<aes_gcm::Aes128Gcm>,
}

impl Srtp {
    /// `master_key` must be 16 bytes, `master_salt` exactly `profile.salt_len()` bytes.
    pub fn new(profile: Profile, master_key: &[u8], master_salt: &[u8]) -> Result<Self, Error> {
        if master_key.len() != 16 || master_salt.len() != profile.salt_len() {
            return Err(Error::BadKeyLength);
        }
        let mut mk = [0u8; 16];
        mk.copy_from_slice(master_key);
        let auth_len = if profile.is_aead() { 0 } else { 20 };
        let derive = |enc: u8, auth: u8, salt: u8| -> SessionKeys {
            let mut ck = [0u8; 16];
            ck.copy_from_slice(&kdf(&mk, master_salt, enc, 16));
            SessionKeys {
                cipher_key: ck,
                auth_key: if auth_len > 0 {
                    kdf(&mk, master_salt, auth, auth_len)
                } else {
                    Vec::new()
                },
                salt: kdf(&mk, master_salt, salt, profile.salt_len()),
            }
        };
        let rtp = derive(LABEL_RTP_ENC, LABEL_RTP_AUTH, LABEL_RTP_SALT);
        let rtcp = derive(LABEL_RTCP_ENC, LABEL_RTCP_AUTH, LABEL_RTCP_SALT);
        let (gcm_rtp, gcm_rtcp) = if profile.is_aead() {
            (
                Some(<aes_gcm::Aes128Gcm as aes_gcm::KeyInit>::new_from_slice(&rtp.cipher_key).unwrap()),
                Some(<aes_gcm::Aes128Gcm as aes_gcm::KeyInit>::new_from_slice(&rtcp.cipher_key).unwrap()),
            )
        } else {
            (None, None)
        };
        Ok(Srtp {
            profile,
            rtp,
            rtcp,
            rtcp_tag_len: profile.rtcp_tag_len(),
            gcm_rtp,
            gcm_rtcp,
        })
    }

    /// Override the SRTCP tag length (HMAC profiles only). Lets an oracle model a
    /// peer that deviates from RFC 5764 §4.1.2 (e.g. 4-byte SRTCP tags under `_32`).
    pub fn with_rtcp_tag_len(mut self, n: usize) -> Self {
        if !self.profile.is_aead() {
            self.rtcp_tag_len = n.min(20);
        }
        self
    }

    pub fn rtp_tag_len(&self) -> usize {
        self.profile.rtp_tag_len()
    }

    pub fn rtcp_tag_len(&self) -> usize {
        self.rtcp_tag_len
    }

    /// AES-CM IV for SRTP, RFC 3711 §4.1.1:
    /// `(k_s * 2^16) XOR (SSRC * 2^64) XOR (i * 2^16)`, `i = ROC || SEQ`.
    pub fn rtp_iv(&self, ssrc: u32, roc: u32, seq: u16) -> [u8; 16] {
        let mut salt = [0u8; 16];
        salt[..14].copy_from_slice(&self.rtp.salt[..14]);
        let index = ((roc as u128) << 16) | seq as u128;
        let v = u128::from_be_bytes(salt) ^ ((ssrc as u128) << 64) ^ (index << 16);
        v.to_be_bytes()
    }

    /// GCM nonce for SRTP, RFC 7714 §8.1: `(00 00 || SSRC || ROC || SEQ) XOR salt`.
    pub fn rtp_nonce(&self, ssrc: u32, roc: u32, seq: u16) -> [u8; 12] {
        let mut n = [0u8; 12];
        n[2..6].copy_from_slice(&ssrc.to_be_bytes());
        n[6..10].copy_from_slice(&roc.to_be_bytes());
        n[10..12].copy_from_slice(&seq.to_be_bytes());
        for i in 0..12 {
            n[i] ^= self.rtp.salt[i];
        }
        n
    }

    /// AES-CM IV for SRTCP: as for SRTP with the 31-bit SRTCP index as `i`.
    pub fn rtcp_iv(&self, ssrc: u32, index: u32) -> [u8; 16] {
        let mut salt = [0u8; 16];
        salt[..14].copy_from_slice(&self.rtcp.salt[..14]);
        let v = u128::from_be_bytes(salt) ^ ((ssrc as u128) << 64) ^ ((index as u128) << 16);
        v.to_be_bytes()
    }

    /// GCM nonce for SRTCP, RFC 7714 §9.1: `(00 00 || SSRC || 00 00 || 0+index) XOR salt`.
    pub fn rtcp_nonce(&self, ssrc: u32, index: u32) -> [u8; 12] {
        let mut n = [0u8; 12];
        n[2..6].copy_from_slice(&ssrc.to_be_bytes());
        n[8..12].copy_from_slice(&(index & 0x7fff_ffff).to_be_bytes());
        for i in 0..12 {
            n[i] ^= self.rtcp.salt[i];
        }
        n
    }

    /// Protect a plain RTP packet (header || payload || padding) at packet index
    /// `roc || SEQ(plain)`. Returns the SRTP datagram.
    pub fn protect_rtp(&self, plain: &[u8], roc: u32) -> Result<Vec<u8>, Error> {
        let hl = rtp_header_len(plain).ok_or(Error::Malformed)?;
        let seq = rtp_seq(plain);
        let ssrc = rtp_ssrc(plain);
        let mut out = plain.to_vec();
        if let Some(gcm) = &self.gcm_rtp {
            let nonce = self.rtp_nonce(ssrc, roc, seq);
            let ct = gcm
                .encrypt(
                    aes_gcm::Nonce::from_slice(&nonce),
                    Payload { msg: &plain[hl..], aad: &plain[..hl] },
                )
                .map_err(|_| Error::Malformed)?;
            out.truncate(hl);
            out.extend_from_slice(&ct);
            return Ok(out);
        }
        if self.profile.encrypts_rtp() {
            let ks = aes_cm_keystream(&self.rtp.cipher_key, self.rtp_iv(ssrc, roc, seq), plain.len() - hl);
            for (b, k) in out[hl..].iter_mut().zip(ks.iter()) {
                *b ^= k;
            }
        }
        // tag = HMAC(k_a, authenticated portion || ROC) truncated (RFC 3711 §4.2)
        let tag = hmac_sha1(&self.rtp.auth_key, &[&out, &roc.to_be_bytes()]);
        out.extend_from_slice(&tag[..self.rtp_tag_len()]);
        Ok(out)
    }

    /// Authenticate and decrypt an SRTP datagram assuming rollover counter `roc`.
    /// Returns the plain RTP packet (padding, if any, still attached).
    pub fn unprotect_rtp(&self, prot: &[u8], roc: u32) -> Result<Vec<u8>, Error> {
        let hl = rtp_header_len(prot).ok_or(Error::Malformed)?;
        let tl = self.rtp_tag_len();
        if prot.len() < hl + tl {
            return Err(Error::TooShort);
        }
        let seq = rtp_seq(prot);
        let ssrc = rtp_ssrc(prot);
        if let Some(gcm) = &self.gcm_rtp {
            let nonce = self.rtp_nonce(ssrc, roc, seq);
            let pt = gcm
                .decrypt(
                    aes_gcm::Nonce::from_slice(&nonce),
                    Payload { msg: &prot[hl..], aad: &prot[..hl] },
                )
                .map_err(|_| Error::AuthFailed)?;
            let mut out = prot[..hl].to_vec();
            out.extend_from_slice(&pt);
            return Ok(out);
        }
        let body_end = prot.len() - tl;
        let tag = hmac_sha1(&self.rtp.auth_key, &[&prot[..body_end], &roc.to_be_bytes()]);
        if tag[..tl] != prot[body_end..] {
            return Err(Error::AuthFailed);
        }
        let mut out = prot[..body_end].to_vec();
        if self.profile.encrypts_rtp() {
            let ks = aes_cm_keystream(&self.rtp.cipher_key, self.rtp_iv(ssrc, roc, seq), body_end - hl);
            for (b, k) in out[hl..].iter_mut().zip(ks.iter()) {
                *b ^= k;
            }
        }
        Ok(out)
    }

    /// Try `unprotect_rtp` for each candidate ROC; returns the first that authenticates.
    pub fn unprotect_rtp_any_roc(
        &self,
        prot: &[u8],
        rocs: impl IntoIterator<Item = u32>,
    ) -> Option<(u32, Vec<u8>)> {
        for r in rocs {
            if let Ok(p) = self.unprotect_rtp(prot, r) {
                return Some((r, p));
            }
        }
        None
    }

    /// Protect a plain RTCP compound packet with SRTCP index `index` (31 bits).
    /// `encrypt` chooses the E-bit: when false the payload is sent in clear but
    /// authenticated (RFC 3711 §3.4; for GCM RFC 7714 §9.3: everything is AAD).
    pub fn protect_rtcp(&self, plain: &[u8], index: u32, encrypt: bool) -> Result<Vec<u8>, Error> {
        if plain.len() < 8 {
            return Err(Error::Malformed);
        }
        let index = index & 0x7fff_ffff;
        let ssrc = rtcp_ssrc(plain);
        let word = (index | if encrypt { 0x8000_0000 } else { 0 }).to_be_bytes();
        if let Some(gcm) = &self.gcm_rtcp {
            let nonce = self.rtcp_nonce(ssrc, index);
            let mut out;
            if encrypt {
                let mut aad = plain[..8].to_vec();
                aad.extend_from_slice(&word);
                let ct = gcm
                    .encrypt(aes_gcm::Nonce::from_slice(&nonce), Payload { msg: &plain[8..], aad: &aad })
                    .map_err(|_| Error::Malformed)?;
                out = plain[..8].to_vec();
                out.extend_from_slice(&ct);
            } else {
                let mut aad = plain.to_vec();
                aad.extend_from_slice(&word);
                let tag = gcm
                    .encrypt(aes_gcm::Nonce::from_slice(&nonce), Payload { msg: &[], aad: &aad })
                    .map_err(|_| Error::Malformed)?;
                out = plain.to_vec();
                out.extend_from_slice(&tag);
            }
            out.extend_from_slice(&word);
            return Ok(out);
        }
        let mut out = plain.to_vec();
        if encrypt {
            let ks = aes_cm_keystream(&self.rtcp.cipher_key, self.rtcp_iv(ssrc, index), plain.len() - 8);
            for (b, k) in out[8..].iter_mut().zip(ks.iter()) {
                *b ^= k;
            }
        }
        out.extend_from_slice(&word);
        let tag = hmac_sha1(&self.rtcp.auth_key, &[&out]);
        out.extend_from_slice(&tag[..self.rtcp_tag_len]);
        Ok(out)
    }

    /// Authenticate and decrypt an SRTCP datagram (the index travels in the packet).
    pub fn unprotect_rtcp(&self, prot: &[u8]) -> Result<RtcpPlain, Error> {
        let tl = self.rtcp_tag_len;
        if prot.len() < 8 + 4 + tl {
            return Err(Error::TooShort);
        }
        let ssrc = rtcp_ssrc(prot);
        if let Some(gcm) = &self.gcm_rtcp {
            let wpos = prot.len() - 4;
            let word = u32::from_be_bytes([prot[wpos], prot[wpos + 1], prot[wpos + 2], prot[wpos + 3]]);
            let index = word & 0x7fff_ffff;
            let encrypted = word & 0x8000_0000 != 0;
            let nonce = self.rtcp_nonce(ssrc, index);
            let packet = if encrypted {
                let mut aad = prot[..8].to_vec();
                aad.extend_from_slice(&prot[wpos..]);
                let pt = gcm
                    .decrypt(aes_gcm::Nonce::from_slice(&nonce), Payload { msg: &prot[8..wpos], aad: &aad })
                    .map_err(|_| Error::AuthFailed)?;
                let mut p = prot[..8].to_vec();
                p.extend_from_slice(&pt);
                p
            } else {
                let body_end = wpos - 16;
                let mut aad = prot[..body_end].to_vec();
                aad.extend_from_slice(&prot[wpos..]);
                gcm.decrypt(
                    aes_gcm::Nonce::from_slice(&nonce),
                    Payload { msg: &prot[body_end..wpos], aad: &aad },
                )
                .map_err(|_| Error::AuthFailed)?;
                prot[..body_end].to_vec()
            };
            return Ok(RtcpPlain { packet, index, encrypted });
        }
        let auth_end = prot.len() - tl;
        let tag = hmac_sha1(&self.rtcp.auth_key, &[&prot[..auth_end]]);
        if tag[..tl] != prot[auth_end..] {
            return Err(Error::AuthFailed);
        }
        let wpos = auth_end - 4;
        let word = u32::from_be_bytes([prot[wpos], prot[wpos + 1], prot[wpos + 2], prot[wpos + 3]]);
        let index = word & 0x7fff_ffff;
        let encrypted = word & 0x8000_0000 != 0;
        let mut packet = prot[..wpos].to_vec();
        if encrypted {
            let ks = aes_cm_keystream(&self.rtcp.cipher_key, self.rtcp_iv(ssrc, index), wpos - 8);
            for (b, k) in packet[8..].iter_mut().zip(ks.iter()) {
                *b ^= k;
            }
        }
        Ok(RtcpPlain { packet, index, encrypted })
    }
}

/// What a [`Receiver`] made of one datagram.
#[derive(Clone, Debug, PartialEq, Eq)]
pub enum Received {
    Rtp { plain: Vec<u8>, roc: u32 },
    Rtcp(RtcpPlain),
}

/// Stateful reference receiver: RFC 3711 index estimation per SSRC on top of
/// [`Srtp`]. No replay list (a verbatim duplicate of an authenticated packet
/// authenticates again). Use it to decide whether a captured datagram is a
/// genuine SRTP/SRTCP packet under the given master key.
#[derive(Clone)]
pub struct Receiver {
    pub srtp: Srtp,
    pub rtp_state: HashMap<u32, RocState>,
    /// Highest SRTCP index authenticated per SSRC.
    pub rtcp_highest: HashMap<u32, u32>,
}

impl Receiver {
    pub fn new(srtp: Srtp) -> Self {
        Receiver { srtp, rtp_state: HashMap::new(), rtcp_highest: HashMap::new() }
    }

    /// Would-be ROC for this packet without touching state.
    pub fn estimate(&self, prot: &[u8]) -> Option<u32> {
        rtp_header_len(prot)?;
        let st = self.rtp_state.get(&rtp_ssrc(prot)).copied().unwrap_or_default();
        Some(st.estimate(rtp_seq(prot)))
    }

    pub fn unprotect_rtp(&mut self, prot: &[u8]) -> Result<(Vec<u8>, u32), Error> {
        rtp_header_len(prot).ok_or(Error::Malformed)?;
        let ssrc = rtp_ssrc(prot);
        let seq = rtp_seq(prot);
        let st = self.rtp_state.get(&ssrc).copied().unwrap_or_default();
        let v = st.estimate(seq);
        let plain = self.srtp.unprotect_rtp(prot, v)?;
        self.rtp_state.entry(ssrc).or_default().update(v, seq);
        Ok((plain, v))
    }

    pub fn unprotect_rtcp(&mut self, prot: &[u8]) -> Result<RtcpPlain, Error> {
        let r = self.srtp.unprotect_rtcp(prot)?;
        let e = self.rtcp_highest.entry(rtcp_ssrc(prot)).or_insert(0);
        if r.index > *e {
            *e = r.index;
        }
        Ok(r)
    }

    /// Demultiplex (RFC 5761) and unprotect.
    pub fn receive(&mut self, datagram: &[u8]) -> Result<Received, Error> {
        if looks_like_rtcp(datagram) {
            self.unprotect_rtcp(datagram).map(Received::Rtcp)
        } else {
            self.unprotect_rtp(datagram).map(|(plain, roc)| Received::Rtp { plain, roc })
        }
    }
}

fn unhex(s: &str) -> Vec<u8> {
    let s: String = s.chars().filter(|c| !c.is_whitespace()).collect();
    (0..s.len() / 2).map(|i| u8::from_str_radix(&s[2 * i..2 * i + 2], 16).unwrap()).collect()
}

/// Known-answer tests anchoring the model: RFC 3711 B.2 (AES-CM keystream),
/// B.3 (key derivation), RFC 2202 (HMAC-SHA1), FIPS-197 C.1 (AES block).
/// Returns a description of the first mismatch.
pub fn self_test() -> Result<(), String> {
    // FIPS-197 Appendix C.1
    let k: [u8; 16] = unhex("000102030405060708090a0b0c0d0e0f").try_into().unwrap();
    let pt: [u8; 16] = unhex("00112233445566778899aabbccddeeff").try_into().unwrap();
    if aes_block(&k, pt).to_vec() != unhex("69c4e0d86a7b0430d8cdb78070b4c55a") {
        return Err("FIPS-197 C.1 AES-128 block mismatch".into());
    }
    // RFC 3711 B.2 AES-CM keystream
    let sk: [u8; 16] = unhex("2B7E151628AED2A6ABF7158809CF4F3C").try_into().unwrap();
    let iv: [u8; 16] = unhex("F0F1F2F3F4F5F6F7F8F9FAFBFCFD0000").try_into().unwrap();
    let ks = aes_cm_keystream(&sk, iv, 0xff02 * 16);
    let expect = [
        (0usize, "E03EAD0935C95E80E166B16DD92B4EB4"),
        (1, "D23513162B02D0F72A43A2FE4A5F97AB"),
        (0xfeff, "EC8CDF7398607CB0F2D21675EA9EA1E4"),
        (0xff00, "362B7C3C6773516318A077D7FC5073AE"),
        (0xff01, "6A2CC3787889374FBEB4C81B17BA6C44"),
    ];
    for (blk, hex) in expect {
        let e = unhex(hex);
        if ks[blk * 16..blk * 16 + e.len()] != e[..] {
            return Err(format!("RFC 3711 B.2 keystream block {blk:#x} mismatch"));
        }
    }
    // RFC 3711 B.3 key derivation
    let mk: [u8; 16] = unhex("E1F97A0D3E018BE0D64FA32C06DE4139").try_into().unwrap();
    let ms = unhex("0EC675AD498AFEEBB6960B3AABE6");
    if kdf(&mk, &ms, LABEL_RTP_ENC, 16) != unhex("C61E7A93744F39EE10734AFE3FF7A087") {
        return Err("RFC 3711 B.3 cipher key mismatch".into());
    }
    if kdf(&mk, &ms, LABEL_RTP_SALT, 14) != unhex("30CBBC08863D8C85D49DB34A9AE1") {
        return Err("RFC 3711 B.3 cipher salt mismatch".into());
    }
    let auth = kdf(&mk, &ms, LABEL_RTP_AUTH, 94);
    let auth_expect = unhex(
        "CEBE321F6FF7716B6FD4AB49AF256A15 6D38BAA48F0A0ACF3C34E2359E6CDBCE
         E049646C43D9327AD175578EF7227098 6371C10C9A369AC2F94A8C5FBCDDDC25
         6D6E919A48B610EF17C2041E47403576 6B68642C59BBFC2F34DB60DBDFB2",
    );
    if auth[..32] != auth_expect[..32] {
        return Err("RFC 3711 B.3 auth key mismatch".into());
    }
    // RFC 2202 test case 2 and 1
    if hmac_sha1(b"Jefe", &[b"what do ya want ", b"for nothing?"]).to_vec()
        != unhex("effcdf6ae5eb2fa2d27416d5f184df9c259a7c79")
    {
        return Err("RFC 2202 HMAC-SHA1 case 2 mismatch".into());
    }
    if hmac_sha1(&[0x0b; 20], &[b"Hi There"]).to_vec() != unhex("b617318655057264e28bc0b6fb378c8ef146be00") {
        return Err("RFC 2202 HMAC-SHA1 case 1 mismatch".into());
    }
    // long-key path (RFC 2202 case 6)
    if hmac_sha1(&[0xaa; 80], &[b"Test Using Larger Than Block-Size Key - Hash Key First"]).to_vec()
        != unhex("aa4ae5e15272d00e95705637ce8a3b55ed402112")
    {
        return Err("RFC 2202 HMAC-SHA1 case 6 mismatch".into());
    }
    // Appendix A spot checks (the examples of RFC 3711 §3.3.1)
    if estimate_roc(1, 65535, 0) != 2 || estimate_roc(1, 0, 65535) != 0 || estimate_roc(1, 100, 200) != 1 {
        return Err("Appendix A spot check".into());
    }
    Ok(())
}

/// How many leading bytes of the B.3 auth-key vector [`self_test`] relies on.
pub const B3_AUTH_BYTES_CHECKED: usize = 32;
