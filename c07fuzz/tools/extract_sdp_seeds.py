#!/usr/bin/env python3
"""Copy SDP string literals out of /repo/tests, /repo/src and /repo/examples into fuzz/seeds/sdp_parse/
(prefixed with a selector byte) and candidate / small-attribute lines into the other text corpora.
Deterministic; keeps the 40 most distinct SDPs (by attribute-key set) to stay small."""
import re, os, hashlib, glob, sys
root = os.path.dirname(os.path.dirname(os.path.abspath(__file__)))
out = os.path.join(root, "fuzz", "seeds")
files = sorted(glob.glob("/repo/tests/*.rs") + glob.glob("/repo/src/**/*.rs", recursive=True) + glob.glob("/repo/examples/**/*.rs", recursive=True))
lit = re.compile(r'"((?:[^"\\]|\\.)*)"', re.S)
rawlit = re.compile(r'r#*"(.*?)"#*', re.S)
def unescape(s):
    s = re.sub(r'\\\n\s*', '', s)            # line continuation
    return s.replace('\\r', '\r').replace('\\n', '\n').replace('\\"', '"').replace('\\\\', '\\')
sdps = {}
for f in files:
    src = open(f, encoding="utf-8", errors="replace").read()
    for m in list(lit.finditer(src)) + list(rawlit.finditer(src)):
        s = unescape(m.group(1))
        if "v=0" in s and "m=" in s and "{" not in s and len(s) < 6000:
            s = s[s.index("v=0"):]
            keys = frozenset(re.findall(r'^a=([A-Za-z0-9-]+)', s, re.M)) | frozenset(re.findall(r'^m=(\w+ \d+ \S+)', s, re.M))
            sdps.setdefault(keys, s)
picked = sorted(sdps.values(), key=lambda s: (-len(set(re.findall(r'^a=([A-Za-z0-9-]+)', s, re.M))), s))[:40]
def put(target, name, data):
    d = os.path.join(out, target); os.makedirs(d, exist_ok=True)
    open(os.path.join(d, name), "wb").write(data)
for i, s in enumerate(picked):
    b = s.encode()
    put("sdp_parse", "repo-%02d-%s" % (i, hashlib.sha1(b).hexdigest()[:8]), bytes([i & 15]) + b)
cands, small = set(), {k: set() for k in range(8)}
for s in sdps.values():
    for line in s.splitlines():
        line = line.strip()
        if line.startswith("a=candidate:"): cands.add(line[len("a=candidate:"):])
        if line.startswith("a=simulcast:"): small[0].add(line[12:])
        if line.startswith("a=rid:"): small[1].add(line[6:])
        if line.startswith("a=crypto:"): small[2].add(line[9:])
        if line.startswith("a=fingerprint:"): small[3].add(line[14:])
        if line.startswith("o="): small[4].add(line[2:])
        if line.startswith("t="): small[4].add(line[2:])
        if line.startswith("a="): 
            if len(small[5]) < 12: small[5].add(line[2:])
        if line.startswith("a=fmtp:") and "apt=" in line: small[6].add(line.split(" ", 1)[1]); small[7].add(line[2:])
cands |= {"1 1 udp 2130706431 192.168.1.2 50000 typ host", "2 1 udp 1694498815 203.0.113.7 40000 typ srflx raddr 192.168.1.2 rport 50000",
          "3 1 tcp 1518280447 2001:db8::1 9 typ host tcptype active", "4 2 udp 41885439 198.51.100.9 3478 typ relay raddr 0.0.0.0 rport 0",
          "candidate:5 1 UDP 1845501695 10.0.0.1 1 typ prflx generation 0 ufrag abcd network-id 1"}
small[0] |= {"send 1;2;3", "send ~1;2 recv 3", "recv a,b;c"}
small[1] |= {"1 send pt=100;max-width=1280", "hi recv", "q send max-fps=15;depend=hi"}
small[2] |= {"1 AES_CM_128_HMAC_SHA1_80 inline:d0RmdmcmVCspeEc3QGZiNWpVLFJhQX1cfHAwJSoj|2^20|1:32", "2 AEAD_AES_128_GCM inline:AAAAAAAAAAAAAAAAAAAAAAAAAAAAAAAAAAAA UNENCRYPTED_SRTCP"}
small[3] |= {"sha-256 AA:BB:CC:DD:EE:FF:00:11:22:33:44:55:66:77:88:99:AA:BB:CC:DD:EE:FF:00:11:22:33:44:55:66:77:88:99", "SHA-1 aabbccddeeff00112233445566778899aabbccdd"}
small[6] |= {"apt=96", "apt=96;rtx-time=3000", "rtx-time=3000; APT=100"}
small[7] |= {"fmtp:97 apt=96\nfmtp:99 apt=98;rtx-time=3000\nrtpmap:97 rtx/90000"}
for i, c in enumerate(sorted(cands)[:24]):
    put("ice_candidate", "cand-%02d" % i, c.encode())
for k, v in small.items():
    for i, s in enumerate(sorted(v)[:8]):
        put("sdp_small", "k%d-%02d" % (k, i), bytes([k]) + s.encode())
print("sdp seeds:", len(picked), "candidates:", min(len(cands), 24))
