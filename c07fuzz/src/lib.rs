//! Stub; the fuzz targets live in `fuzz/`.
