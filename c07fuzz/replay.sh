#!/usr/bin/env bash
# replay.sh <target> <file>: run ONE input in strict mode (every panic / oracle failure aborts)
#  (a) on the normal cargo-fuzz build (optimised + debug assertions + overflow checks, ASan), and
#  (b) on a second build made with `cargo fuzz build -O` (no debug assertions / overflow checks) kept in a
#      separate --target-dir, and say whether the finding only exists in the debug-assertion profile.
# exit: 0 input is clean on both, 1 finding reproduced (on either), 2 tool trouble.
set -u
HERE="$(cd "$(dirname "$0")" && pwd)"
T="${1:-}"; F="${2:-}"
[ -n "$T" ] && [ -f "$F" ] || { echo "usage: $0 <target> <file>" >&2; exit 2; }
export CARGO_INCREMENTAL=0 CARGO_NET_OFFLINE=true
unset RUST_BACKTRACE RUST_LIB_BACKTRACE
LIMITS="-timeout=5 -rss_limit_mb=1024 -malloc_limit_mb=64 -runs=1"
TRIPLE=x86_64-unknown-linux-gnu
( cd "$HERE" && cargo +nightly fuzz build --target-dir "$HERE/target" "$T" ) > /tmp/c07fuzz-replay-build.$$ 2>&1 || { tail -20 /tmp/c07fuzz-replay-build.$$ >&2; rm -f /tmp/c07fuzz-replay-build.$$; exit 2; }
( cd "$HERE" && cargo +nightly fuzz build -O --target-dir "$HERE/target-rel" "$T" ) > /tmp/c07fuzz-replay-build.$$ 2>&1 || { tail -20 /tmp/c07fuzz-replay-build.$$ >&2; rm -f /tmp/c07fuzz-replay-build.$$; exit 2; }
rm -f /tmp/c07fuzz-replay-build.$$
one() { # <label> <binary>
  local out rc sig kind
  out="$(C07_STRICT=1 C07_STAGE_TRACE=1 C07_KNOWN= timeout 120 "$2" $LIMITS "$F" 2>&1)"; rc=$?
  sig="$(printf '%s\n' "$out" | sed -n 's/^C07-SIGNATURE: //p' | head -1)"
  if [ "$rc" -eq 0 ]; then echo "$1: clean"; return 0; fi
  if [ -z "$sig" ]; then
    stage="$(printf '%s\n' "$out" | sed -n 's/^C07-STAGE: //p' | tail -1)"
    if printf '%s\n' "$out" | grep -q 'libFuzzer: timeout'; then sig="$T|timeout@${stage:-?}"
    elif printf '%s\n' "$out" | grep -q 'out-of-memory'; then sig="$T|oom@${stage:-?}"
    elif printf '%s\n' "$out" | grep -q 'AddressSanitizer'; then sig="$T|asan@${stage:-?}"
    else sig="$T|exit-$rc"; fi
  fi
  echo "$1: FINDING $sig"
  printf '%s\n' "$out" | grep -E '^C07-FINDING|^\s+at /repo/src' | head -8 | sed "s/^/$1:   /"
  return 1
}
one "debug-assertions build" "$HERE/target/$TRIPLE/release/$T"; A=$?
one "-O build (no debug assertions)" "$HERE/target-rel/$TRIPLE/release/$T"; B=$?
if [ $A -eq 1 ] && [ $B -eq 0 ]; then echo "verdict: DEBUG-PROFILE-ONLY (reproduces only with debug assertions / overflow checks)"; exit 1; fi
if [ $A -eq 1 ] && [ $B -eq 1 ]; then echo "verdict: reproduces in both profiles"; exit 1; fi
if [ $A -eq 0 ] && [ $B -eq 1 ]; then echo "verdict: reproduces only WITHOUT debug assertions"; exit 1; fi
echo "verdict: not reproduced"; exit 0
