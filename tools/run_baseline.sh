#!/bin/sh
# Runs the repository's pinned test suite (guard OFF) and compares with BASELINE.json's stable_pass.
cd /repo || exit 2
rm -f target/nextest/pb/junit.xml
CARGO_NET_OFFLINE=true cargo nextest run --workspace --no-fail-fast --tool-config-file pb:/w/lib/nextest.toml --profile pb --test-threads 8 --offline >/tmp/baseline_run.log 2>&1
python3 - <<'PY'
import json,xml.etree.ElementTree as ET,sys
b=json.load(open('/root/.vp/BASELINE.json'))
t=ET.parse('/repo/target/nextest/pb/junit.xml')
res={}
for ts in t.getroot().iter('testsuite'):
    for tc in ts.iter('testcase'):
        name=tc.get('classname','')+'::'+tc.get('name','')
        bad=any(c.tag in('failure','error') for c in tc)
        res[name]=not bad
def norm(n): return n
passed={n for n,ok in res.items() if ok}
# baseline names look like rustrtc::mod::test ; junit classname is the binary id
def keyset(names):
    out=set()
    for n in names:
        out.add(n)
    return out
bp=set(b['stable_pass'])
# try matching by suffix after the first '::'
got=set()
for n in passed:
    got.add(n)
missing=[x for x in bp if x not in got]
if missing and len(missing)==len(bp):
    # fall back: compare on test path without binary prefix
    strip=lambda s:s.split('::',1)[1] if '::' in s else s
    gs={strip(x) for x in got}
    missing=[x for x in bp if strip(x) not in gs]
print('passed',len(passed),'failed',len(res)-len(passed),'baseline',len(bp),'baseline_missing',len(missing))
for m in missing[:20]: print('  MISSING',m)
sys.exit(1 if missing else 0)
PY
