#!/usr/bin/env python3
"""tools/seed_table.py [suffix] : print the DESIGN.md table rows for /verif/seeded/*<suffix>-*/meta.json"""
import json, glob, sys, os
suf = sys.argv[1] if len(sys.argv) > 1 else ''
for d in sorted(glob.glob('/verif/seeded/*')):
    n = os.path.basename(d)
    p = n.split('-')[0]
    if suf and not p.endswith(suf): continue
    if not suf and not p[-1].isdigit(): continue
    m = json.load(open(d + '/meta.json'))
    st = 'caught after strengthening' if m.get('history') else ('NOT CAUGHT' if m['caught_by'] == 'NOT CAUGHT' else 'caught')
    print(f"| {n} | {m['change']} | {m['needs_to_manifest']} | {m['caught_by']} | {st} |")
