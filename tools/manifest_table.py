def chk(pid, cat, text, note, technique, design):
    return {
        "property_id": pid,
        "quick_cmd": f"./check {pid} --tier quick",
        "thorough_cmd": f"./check {pid} --tier thorough",
        "evidence_file": f"/verif/evidence/{pid}.json",
        "replay_cmd_template": f"./check {pid} --replay {{path}}",
        "engine": "rtcverif",
        "level_claimed": {"category": cat, "text": text, "design_ref": design},
        "level_note": note,
        "technique": technique,
    }

CHECKS = [
 chk("C18", "exploration",
     "Every packet/control sequence up to length 4 (quick) / 5-6 (thorough) over a 23-symbol alphabet is enumerated for each probation/SSRC/RTCP setting and judged step by step against a reference model of the documented latching rules; longer random sequences (<=60, probation 0..8, wrapping sequence numbers) are sampled with shrinking. Exhaustive to the stated bound, sampled beyond it.",
     "Trusted: the reference model in harness/src/props/c18.rs (tie-breaks accepted under every reading of 'lowest first_seq'); initial remote address non-zero; not an inbound-TCP socket.",
     "exhaustive bounded sequence enumeration + proptest stateful sequences against a reference model", "DESIGN.md 4/C18"),
]

ALL = [f"C{n:02d}" for n in range(1, 21)]
NOT_YET = [{"property_id": p, "reason": "check not built yet at this commit (work in progress; see DESIGN.md section 4 for the planned check)"}
           for p in ALL if p not in {c["property_id"] for c in CHECKS}]
