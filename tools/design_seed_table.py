#!/usr/bin/env python3
"""tools/design_seed_table.py <suffix> : regenerate the seeds table between the <!-- seeds:<suffix>:begin/end --> markers of DESIGN.md"""
import subprocess, sys
suf = sys.argv[1]
rows = subprocess.check_output(['python3', '/verif/tools/seed_table.py', suf]).decode()
p = '/verif/DESIGN.md'
s = open(p).read()
b, e = f'<!-- seeds:{suf}:begin -->\n', f'<!-- seeds:{suf}:end -->\n'
i, j = s.index(b) + len(b), s.index(e)
open(p, 'w').write(s[:i] + rows + s[j:])
print(rows.count('\n'), 'rows')
