#!/usr/bin/env python3
"""Regenerates /verif/MANIFEST.json from the table below (keeps it schema-valid at all times)."""
import json, subprocess, sys
sys.path.insert(0, '/verif/tools')
from manifest_table import CHECKS, NOT_YET

hooks = subprocess.run(['git','-C','/repo','log','--format=%h %s','--grep=^verif'],capture_output=True,text=True).stdout.strip().splitlines()
m = {
 "version": 1,
 "setup_cmd": "./setup.sh",
 "hooks": {
   "guard": "cargo feature 'verif' of rustrtc (default off)",
   "enable": "harness/fuzz/miri crates depend on rustrtc = { path = \"/repo\", features = [\"verif\"] }",
   "baseline_off_cmd": "/verif/tools/run_baseline.sh",
   "source_commits": [h.split()[0] for h in hooks],
   "add_only": True
 },
 "engines": [
   {"name":"rtcverif","path":"harness","serves_properties":[c["property_id"] for c in CHECKS],
    "kind_free_text":"proptest-driven property checks, exhaustive small-alphabet enumerators, fault-injecting two-endpoint network rigs, reference models"},
   {"name":"c07fuzz","path":"c07fuzz","serves_properties":["C07"],
    "kind_free_text":"cargo-fuzz / libFuzzer project (14 targets with semantic oracles, ASan), driven by checks/C07.sh after the live-endpoint half"},
   {"name":"c20-miri","path":"harness/src/props/c20_miri","serves_properties":["C20"],
    "kind_free_text":"small crate generated under /verif/miri and run with cargo +nightly miri (seeded schedules) by the C20 check for the data-race / UB clause"},
 ],
 "checks": CHECKS,
 "not_applicable": NOT_YET,
 "notes": "Exit 0 = held (KNOWN-FINDING lines possible), 1 = VIOLATION line printed, 2 = harness trouble/inconclusive. Known findings: /verif/known_findings.json. Design: /verif/DESIGN.md."
}
json.dump(m, open('/verif/MANIFEST.json','w'), indent=1)
try:
    import jsonschema
    jsonschema.validate(m, json.load(open('/root/.vp/MANIFEST.schema.json')))
    print("MANIFEST.json valid;", len(CHECKS), "checks,", len(NOT_YET), "not claimed")
except ImportError:
    print("written (jsonschema not importable here)")
