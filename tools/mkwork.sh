#!/bin/sh
# tools/mkwork.sh cXX : private scratch copy of the harness for developing one property module
P="$1"; W=/verif/work/$P
mkdir -p "$W/root/evidence" "$W/root/replays"
rsync -a --delete --exclude target /verif/harness/ "$W/harness/"
printf '[net]\noffline = true\n[build]\ntarget-dir = "%s/target"\n' "$W" > "$W/harness/.cargo/config.toml"
[ -f "$W/root/known_findings.json" ] || echo '{"findings":[],"fixed":[]}' > "$W/root/known_findings.json"
echo "$W"
