#!/bin/sh
# Pre-build the fuzz targets so that the C07 quick check starts warm (cold build ~5 min).
export CARGO_NET_OFFLINE=true CARGO_INCREMENTAL=0
cd /verif/c07fuzz || exit 1
[ -f Cargo.lock ] || cp /repo/Cargo.lock Cargo.lock
[ -f fuzz/Cargo.lock ] || cp /repo/Cargo.lock fuzz/Cargo.lock
cargo +nightly fuzz build --target-dir /verif/c07fuzz/target >/verif/c07fuzz/setup-build.log 2>&1 || { tail -20 /verif/c07fuzz/setup-build.log; exit 1; }
exit 0
