#!/bin/sh
# tools/seed_eval.sh <patch.diff> <Cxx> [<Cyy> ...] : run quick checks against a scratch worktree of /repo
# with the seeded patch applied (does not touch /repo; safe while other builds use /repo).
PATCH="$1"; shift
WT=/tmp/wt-seedeval
W=/verif/work/seedeval
export CARGO_NET_OFFLINE=true
if [ ! -d "$WT" ]; then git -C /repo worktree add --detach "$WT" HEAD >/dev/null 2>&1 || exit 2; fi
git -C "$WT" checkout -q --detach "$(git -C /repo rev-parse HEAD)" && git -C "$WT" checkout -q -- . && git -C "$WT" clean -fdq -e target
if [ "$PATCH" != "none" ]; then git -C "$WT" apply "$PATCH" || { echo "patch does not apply"; exit 2; }; fi
mkdir -p "$W/root"
rsync -a --delete --exclude target /verif/harness/ "$W/harness/"
printf '[net]\noffline = true\n[build]\ntarget-dir = "%s/target"\n' "$W" > "$W/harness/.cargo/config.toml"
sed -i "s#path = \"/repo\"#path = \"$WT\"#" "$W/harness/Cargo.toml"
rm -rf "$W/root/replays" "$W/root/evidence"; mkdir -p "$W/root/evidence"
cp /verif/known_findings.json "$W/root/"; cp -r /verif/replays "$W/root/replays"
(cd "$W/harness" && cargo build --quiet 2>"$W/build.log") || { echo "BUILD FAILED"; tail -20 "$W/build.log"; exit 2; }
rc=0
for P in "$@"; do
  out=$(cd "$W/harness" && VERIF_ROOT_DIR="$W/root" timeout 1500 "$W/target/debug/rtcverif" run "$P" --tier quick 2>&1)
  code=$?
  echo "== $P exit=$code"
  echo "$out" | grep -E "^VIOLATION|^  sub=|tier=" | cut -c1-260 | head -8
  [ $code -ne 0 ] && rc=1
done
git -C "$WT" checkout -q -- .
exit $rc
