#!/bin/sh
# tools/seed_confirm.sh <seed-out-dir> <prop> <k> : confirm a seeded change in a scratch worktree:
# demo passes without / fails with the patch, and the pinned test suite still passes with the patch.
SRC="$1"; P="$2"; K="$3"; FEAT="$4"   # FEAT: e.g. "--features verif" when the demonstration needs the hooks
WT=/tmp/wt-seedconfirm
export CARGO_NET_OFFLINE=true
[ -d "$WT" ] || git -C /repo worktree add --detach "$WT" HEAD >/dev/null 2>&1 || exit 2
git -C "$WT" checkout -q --detach "$(git -C /repo rev-parse HEAD)"; git -C "$WT" checkout -q -- .; rm -f "$WT"/tests/seed_*.rs
NAME=seed_$(echo $P | tr A-Z a-z)_$K
cp "$SRC/demo.rs" "$WT/tests/$NAME.rs"
cd "$WT" || exit 2
cargo test --offline $FEAT --test $NAME > /tmp/sc_without.log 2>&1; W0=$?
git apply "$SRC/patch.diff" || { echo "RESULT $P/$K patch-does-not-apply"; exit 1; }
cargo test --offline $FEAT --test $NAME > /tmp/sc_with.log 2>&1; W1=$?
rm -f target/nextest/pb/junit.xml
cargo nextest run --workspace --no-fail-fast --tool-config-file pb:/w/lib/nextest.toml --profile pb --test-threads 8 --offline > /tmp/sc_suite.log 2>&1
MISSING=$(python3 - <<'PY'
import json,xml.etree.ElementTree as ET
b=json.load(open('/root/.vp/BASELINE.json'))
t=ET.parse('/tmp/wt-seedconfirm/target/nextest/pb/junit.xml')
ok=set()
for ts in t.getroot().iter('testsuite'):
    for tc in ts.iter('testcase'):
        if not any(c.tag in('failure','error') for c in tc): ok.add(tc.get('classname','')+'::'+tc.get('name',''))
strip=lambda s:s.split('::',1)[1] if '::' in s else s
g={strip(x) for x in ok}|ok
print(','.join(x for x in b['stable_pass'] if x not in g and strip(x) not in g))
PY
)
git checkout -q -- .; rm -f tests/$NAME.rs
echo "RESULT $P/$K demo_without_patch_exit=$W0 demo_with_patch_exit=$W1 suite_missing=[$MISSING]"
