#!/usr/bin/env python3
"""tools/seed_import.py <descr.json> <confirm.log>... -- <eval.log>...
Copies confirmed seeded changes from /tmp/seed-<P>/out/<k>/ into /verif/seeded/<P>-<k>/ and writes meta.json.
descr.json: {"C15b/1": {"change": ..., "needs": ..., "history": ... (optional), "features": "verif" (optional)}}
confirm logs carry the RESULT lines of tools/seed_confirm.sh; eval logs the output of tools/seed_eval.sh runs
introduced by '#### <P>/<k>' lines."""
import json, re, shutil, subprocess, sys, os

args = sys.argv[1:]
descr = json.load(open(args[0]))
sep = args.index('--')
confirm_logs, eval_logs = args[1:sep], args[sep + 1:]
results = {}
for f in confirm_logs:
    for l in open(f):
        m = re.match(r'RESULT (C\d+[a-z]?)/(\d) (.*)', l)
        if m:
            results[f'{m.group(1)}/{m.group(2)}'] = l.strip()
caught = {}
for f in eval_logs:
    cur = None
    for l in open(f):
        m = re.match(r'#### (C\d+[a-z]?/\d)', l)
        if m:
            cur = m.group(1)
            caught[cur] = {'exit': None, 'sigs': []}
            continue
        if cur is None:
            continue
        m = re.match(r'== (C\d+) exit=(\d+)', l)
        if m:
            caught[cur]['exit'] = int(m.group(2))
            caught[cur]['check'] = m.group(1)
        m = re.match(r'\s+sub=(\S+) signature=(.*)', l)
        if m:
            s = f'{m.group(1)}: {m.group(2).strip()}'
            if s not in caught[cur]['sigs']:
                caught[cur]['sigs'].append(s)
head = subprocess.check_output(['git', '-C', '/repo', 'rev-parse', '--short', 'HEAD']).decode().strip()
for key, d in descr.items():
    p, k = key.split('/')
    src = d.get('src') or f'/tmp/seed-{p}/out/{k}'
    dst = f'/verif/seeded/{p}-{k}'
    r = d.get('result') or results.get(key)
    if not r or 'demo_without_patch_exit=0 demo_with_patch_exit=101 suite_missing=[]' not in r:
        print('SKIP (not confirmed):', key, r)
        continue
    c = caught.get(key)
    if not c:
        print('SKIP (not evaluated):', key)
        continue
    os.makedirs(dst, exist_ok=True)
    for fn in ('patch.diff', 'demo.rs', 'notes.md'):
        shutil.copy(f'{src}/{fn}', f'{dst}/{fn}')
    if d.get('src'):
        shutil.copy(f'/tmp/seed-{p}/out/{k}/patch.diff', f'{dst}/patch.orig.diff')
    prop = p[:3]
    feat = ' --features verif' if d.get('features') else ''
    meta = {
        'property': prop,
        'change': d['change'],
        'needs_to_manifest': d['needs'],
        'author': 'fresh sub-agent given only the property text and its own git worktree of /repo (nothing from /verif)',
        'confirmed_by_main_session': {
            'how': 'tools/seed_confirm.sh in scratch worktree /tmp/wt-seedconfirm: demo copied to tests/, `cargo test --offline' + feat + ' --test seed_<id>_<k>` without and with the patch, then the pinned suite (cargo nextest, BASELINE.json stable_pass) with the patch',
            'result': r,
        },
        'checks_run': f'tools/seed_eval.sh {dst}/patch.diff {prop} (quick tier against a scratch worktree of /repo with the patch applied)',
        'caught_by': (f'{prop} ' + '; '.join(c['sigs'][:4])) if c['exit'] == 1 else 'NOT CAUGHT',
        'applies_to_repo_head': head,
        'demo_cmd': f'cp demo.rs <worktree>/tests/seed_{p.lower()}_{k}.rs && cargo test --offline{feat} --test seed_{p.lower()}_{k}',
    }
    if d.get('history'):
        meta['history'] = d['history']
    if d.get('note'):
        meta['note'] = d['note']
    json.dump(meta, open(f'{dst}/meta.json', 'w'), indent=1)
    print('OK', key, meta['caught_by'][:150])
