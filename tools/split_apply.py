#!/usr/bin/env python3
"""split_apply.py <diff> <hunk-indexes comma separated, 0-based over the whole diff> : apply selected hunks to /repo"""
import re,sys,subprocess
d=open(sys.argv[1]).read()
want=set(int(x) for x in sys.argv[2].split(','))
files=re.split(r'(?m)^(?=diff --git )', d)
files=[f for f in files if f.strip()]
out=''; n=0
for f in files:
    parts=re.split(r'(?m)^(?=@@ )', f)
    header=parts[0]; hs=parts[1:]
    keep=[]
    for h in hs:
        if n in want: keep.append(h)
        n+=1
    if keep: out+=header+''.join(keep)
open('/tmp/_sel.diff','w').write(out)
r=subprocess.run(['git','-C','/repo','apply','--recount','-C1','/tmp/_sel.diff'],capture_output=True,text=True)
print('total hunks',n,'applied' if r.returncode==0 else 'FAILED '+r.stderr[:400])
sys.exit(r.returncode)
